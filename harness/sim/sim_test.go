package sim

import (
	"context"
	"fmt"
	"testing"

	corev1 "k8s.io/api/core/v1"
	kerrors "k8s.io/apimachinery/pkg/api/errors"
	metav1 "k8s.io/apimachinery/pkg/apis/meta/v1"
	"k8s.io/apimachinery/pkg/apis/meta/v1/unstructured"
	"k8s.io/apimachinery/pkg/runtime"
	"k8s.io/apimachinery/pkg/runtime/schema"
	"k8s.io/apimachinery/pkg/types"
	clientgoscheme "k8s.io/client-go/kubernetes/scheme"
	"k8s.io/utils/ptr"
	"sigs.k8s.io/controller-runtime/pkg/client"
)

// These tests pin sim to documented apiserver behaviours (DESIGN.md section 2.2).

var ctx = context.Background()

func world() *World {
	s := runtime.NewScheme()
	_ = clientgoscheme.AddToScheme(s)
	return NewWorld(s, 1)
}

func cr(name string) *unstructured.Unstructured {
	u := &unstructured.Unstructured{Object: map[string]any{
		"apiVersion": "example.org/v1", "kind": "Thing",
		"metadata": map[string]any{"name": name},
		"spec":     map[string]any{"a": int64(1)},
	}}
	return u
}

func ownerRef(uid, name string, ctrl bool) map[string]any {
	return map[string]any{"apiVersion": "example.org/v1", "kind": "Owner", "name": name, "uid": uid, "controller": ctrl, "blockOwnerDeletion": true}
}

func TestStaleUpdateConflictsAndNoopKeepsRV(t *testing.T) {
	w := world()
	c := w.Client("t")
	o := cr("a")
	if err := c.Create(ctx, o); err != nil {
		t.Fatal(err)
	}
	if o.GetUID() == "" || o.GetResourceVersion() == "" || o.GetGeneration() != 1 {
		t.Fatalf("metadata not populated: %v", o.Object["metadata"])
	}
	stale := o.DeepCopy()
	rv := o.GetResourceVersion()
	if err := c.Update(ctx, o); err != nil {
		t.Fatal(err)
	}
	if o.GetResourceVersion() != rv {
		t.Fatalf("no-op update moved rv %s -> %s", rv, o.GetResourceVersion())
	}
	unstructured.SetNestedField(o.Object, int64(2), "spec", "a")
	if err := c.Update(ctx, o); err != nil {
		t.Fatal(err)
	}
	if o.GetResourceVersion() == rv || o.GetGeneration() != 2 {
		t.Fatalf("effective update: rv %s gen %d", o.GetResourceVersion(), o.GetGeneration())
	}
	unstructured.SetNestedField(stale.Object, int64(3), "spec", "a")
	if err := c.Update(ctx, stale); !kerrors.IsConflict(err) {
		t.Fatalf("stale update: want conflict, got %v", err)
	}
	if err := c.Create(ctx, cr("a")); !kerrors.IsAlreadyExists(err) {
		t.Fatalf("want AlreadyExists, got %v", err)
	}
	if err := c.Get(ctx, types.NamespacedName{Name: "zz"}, cr("zz")); !kerrors.IsNotFound(err) {
		t.Fatalf("want NotFound, got %v", err)
	}
}

func TestStatusIsolation(t *testing.T) {
	w := world()
	c := w.Client("t")
	o := cr("a")
	o.Object["status"] = map[string]any{"x": "ignored-on-create"}
	if err := c.Create(ctx, o); err != nil {
		t.Fatal(err)
	}
	if _, ok := o.Object["status"]; ok {
		t.Fatal("status must be dropped on create")
	}
	o.Object["status"] = map[string]any{"x": "y"}
	unstructured.SetNestedField(o.Object, int64(9), "spec", "a")
	if err := c.Status().Update(ctx, o); err != nil {
		t.Fatal(err)
	}
	got := w.GetObj(KeyOf(o.Object))
	if a, _, _ := unstructured.NestedInt64(got, "spec", "a"); a != 1 {
		t.Fatalf("status update changed spec: %v", got["spec"])
	}
	if Str(got, "status", "x") != "y" {
		t.Fatalf("status not written: %v", got)
	}
	if g, _, _ := unstructured.NestedInt64(got, "metadata", "generation"); g != 1 {
		t.Fatalf("status update bumped generation")
	}
	o.Object["status"] = map[string]any{"x": "z"}
	unstructured.SetNestedField(o.Object, int64(5), "spec", "a")
	if err := c.Update(ctx, o); err != nil {
		t.Fatal(err)
	}
	got = w.GetObj(KeyOf(o.Object))
	if Str(got, "status", "x") != "y" {
		t.Fatalf("main update changed status: %v", got["status"])
	}
}

func TestFinalizerLifecycle(t *testing.T) {
	w := world()
	c := w.Client("t")
	o := cr("a")
	o.SetFinalizers([]string{"f"})
	if err := c.Create(ctx, o); err != nil {
		t.Fatal(err)
	}
	if err := c.Delete(ctx, o); err != nil {
		t.Fatal(err)
	}
	got := cr("a")
	if err := c.Get(ctx, types.NamespacedName{Name: "a"}, got); err != nil {
		t.Fatal(err)
	}
	if got.GetDeletionTimestamp() == nil {
		t.Fatal("deletionTimestamp not set")
	}
	if err := c.Create(ctx, cr("a")); !kerrors.IsAlreadyExists(err) {
		t.Fatalf("create on terminating name: %v", err)
	}
	got.SetFinalizers(nil)
	if err := c.Update(ctx, got); err != nil {
		t.Fatal(err)
	}
	if err := c.Get(ctx, types.NamespacedName{Name: "a"}, got); !kerrors.IsNotFound(err) {
		t.Fatalf("object should be gone: %v", err)
	}
}

func TestTwoControllersRejected(t *testing.T) {
	w := world()
	c := w.Client("t")
	o := cr("a")
	unstructured.SetNestedSlice(o.Object, []any{ownerRef("u1", "o1", true)}, "metadata", "ownerReferences")
	if err := c.Create(ctx, o); err != nil {
		t.Fatal(err)
	}
	unstructured.SetNestedSlice(o.Object, []any{ownerRef("u1", "o1", true), ownerRef("u2", "o2", true)}, "metadata", "ownerReferences")
	if err := c.Update(ctx, o); !kerrors.IsInvalid(err) {
		t.Fatalf("update with two controllers: want Invalid, got %v", err)
	}
	// via server-side apply: a second applier asserting its own controller reference
	a := cr("a")
	delete(a.Object, "spec")
	unstructured.SetNestedSlice(a.Object, []any{ownerRef("u2", "o2", true)}, "metadata", "ownerReferences")
	err := c.Patch(ctx, a, client.Apply, client.ForceOwnership, client.FieldOwner("other"))
	if !kerrors.IsInvalid(err) {
		t.Fatalf("SSA of a second controller: want Invalid, got %v", err)
	}
	// a plain (non-controller) owner merges
	unstructured.SetNestedSlice(a.Object, []any{ownerRef("u3", "o3", false)}, "metadata", "ownerReferences")
	if err := c.Patch(ctx, a, client.Apply, client.ForceOwnership, client.FieldOwner("other")); err != nil {
		t.Fatal(err)
	}
	if n := len(OwnerRefs(w.GetObj(KeyOf(o.Object)))); n != 2 {
		t.Fatalf("owner refs should merge by uid, got %d", n)
	}
}

func TestSSAOwnershipConflictRemoval(t *testing.T) {
	w := world()
	c := w.Client("t")
	a := cr("a")
	a.Object["spec"] = map[string]any{"x": "1", "y": "1", "list": []any{"a", "b"}}
	if err := c.Patch(ctx, a, client.Apply, client.FieldOwner("m1")); err != nil {
		t.Fatal(err)
	}
	rv := a.GetResourceVersion()
	// identical apply is a no-op
	a2 := cr("a")
	a2.Object["spec"] = map[string]any{"x": "1", "y": "1", "list": []any{"a", "b"}}
	if err := c.Patch(ctx, a2, client.Apply, client.FieldOwner("m1")); err != nil {
		t.Fatal(err)
	}
	if a2.GetResourceVersion() != rv {
		t.Fatalf("no-op apply moved rv %s -> %s", rv, a2.GetResourceVersion())
	}
	// another manager changing x without force conflicts
	b := cr("a")
	b.Object["spec"] = map[string]any{"x": "2"}
	if err := c.Patch(ctx, b, client.Apply, client.FieldOwner("m2")); !kerrors.IsConflict(err) {
		t.Fatalf("want apply conflict, got %v", err)
	}
	if err := c.Patch(ctx, b, client.Apply, client.FieldOwner("m2"), client.ForceOwnership); err != nil {
		t.Fatal(err)
	}
	// m1 stops applying y and the list shrinks atomically: y removed, x stays (now m2's)
	a3 := cr("a")
	a3.Object["spec"] = map[string]any{"list": []any{"b"}}
	if err := c.Patch(ctx, a3, client.Apply, client.FieldOwner("m1")); err != nil {
		t.Fatal(err)
	}
	got := w.GetObj(KeyOf(a.Object))
	spec := got["spec"].(map[string]any)
	if _, ok := spec["y"]; ok {
		t.Fatalf("y should be removed: %v", spec)
	}
	if spec["x"] != "2" {
		t.Fatalf("x should be m2's value: %v", spec)
	}
	if l := spec["list"].([]any); len(l) != 1 || l[0] != "b" {
		t.Fatalf("list should be replaced atomically: %v", l)
	}
}

func TestSSAStatusSubresourceSeparateManagers(t *testing.T) {
	w := world()
	c := w.Client("t")
	a := cr("a")
	a.Object["spec"] = map[string]any{"refs": []any{"r1"}}
	if err := c.Patch(ctx, a, client.Apply, client.FieldOwner("m"), client.ForceOwnership); err != nil {
		t.Fatal(err)
	}
	s := cr("a")
	delete(s.Object, "spec")
	s.Object["status"] = map[string]any{"ok": true}
	if err := c.Status().Patch(ctx, s, client.Apply, client.FieldOwner("m"), client.ForceOwnership); err != nil {
		t.Fatal(err)
	}
	got := w.GetObj(KeyOf(a.Object))
	if _, ok, _ := unstructured.NestedSlice(got, "spec", "refs"); !ok {
		t.Fatalf("status apply by the same manager must not remove spec fields: %v", got)
	}
	if ok, _, _ := unstructured.NestedBool(got, "status", "ok"); !ok {
		t.Fatalf("status not applied: %v", got)
	}
}

func TestBeforeFirstApplyAfterReset(t *testing.T) {
	w := world()
	c := w.Client("t")
	o := cr("a")
	o.Object["spec"] = map[string]any{"x": "1", "legacy": "v"}
	if err := c.Create(ctx, o); err != nil {
		t.Fatal(err)
	}
	p := []byte(fmt.Sprintf(`[{"op":"replace","path":"/metadata/managedFields","value":[{}]},{"op":"replace","path":"/metadata/resourceVersion","value":"%s"}]`, o.GetResourceVersion()))
	if err := c.Patch(ctx, o, client.RawPatch(types.JSONPatchType, p)); err != nil {
		t.Fatal(err)
	}
	if len(o.GetManagedFields()) != 0 {
		t.Fatalf("managed fields should be reset, got %v", o.GetManagedFields())
	}
	a := cr("a")
	a.Object["spec"] = map[string]any{"x": "1"}
	if err := c.Patch(ctx, a, client.Apply, client.FieldOwner("ssa"), client.ForceOwnership); err != nil {
		t.Fatal(err)
	}
	var names []string
	for _, e := range a.GetManagedFields() {
		names = append(names, e.Manager)
	}
	if len(names) != 2 {
		t.Fatalf("want ssa + before-first-apply, got %v", names)
	}
	// stale RV in a JSON patch conflicts
	if err := c.Patch(ctx, o, client.RawPatch(types.JSONPatchType, p)); !kerrors.IsConflict(err) {
		t.Fatalf("stale json patch: want conflict, got %v", err)
	}
}

func TestMergePatchWithRVAndTypedObjects(t *testing.T) {
	w := world()
	c := w.Client("t")
	s := &corev1.Secret{ObjectMeta: metav1.ObjectMeta{Namespace: "ns", Name: "s"}, Data: map[string][]byte{"k": []byte("v")}}
	if err := c.Create(ctx, s); err != nil {
		t.Fatal(err)
	}
	if s.UID == "" {
		t.Fatal("typed create not populated")
	}
	orig := s.DeepCopy()
	s.Data["k2"] = []byte("v2")
	if err := c.Patch(ctx, s, client.MergeFromWithOptions(orig, client.MergeFromWithOptimisticLock{})); err != nil {
		t.Fatal(err)
	}
	got := &corev1.Secret{}
	if err := c.Get(ctx, types.NamespacedName{Namespace: "ns", Name: "s"}, got); err != nil {
		t.Fatal(err)
	}
	if string(got.Data["k2"]) != "v2" || string(got.Data["k"]) != "v" {
		t.Fatalf("merge patch result: %v", got.Data)
	}
	// stale optimistic lock
	orig.Data["k3"] = []byte("x")
	stale := orig.DeepCopy()
	stale.Data["k4"] = []byte("y")
	if err := c.Patch(ctx, stale, client.MergeFromWithOptions(orig, client.MergeFromWithOptimisticLock{})); !kerrors.IsConflict(err) {
		t.Fatalf("stale merge patch: want conflict, got %v", err)
	}
	l := &corev1.SecretList{}
	if err := c.List(ctx, l, client.InNamespace("ns")); err != nil || len(l.Items) != 1 {
		t.Fatalf("typed list: %v %d", err, len(l.Items))
	}
	if err := c.List(ctx, l, client.InNamespace("other")); err != nil || len(l.Items) != 0 {
		t.Fatalf("typed list other ns: %v %d", err, len(l.Items))
	}
}

func TestDryRunLeavesNoTrace(t *testing.T) {
	w := world()
	c := w.Client("t")
	o := cr("a")
	if err := c.Create(ctx, o, client.DryRunAll); err != nil {
		t.Fatal(err)
	}
	if w.GetObj(KeyOf(o.Object)) != nil {
		t.Fatal("dry-run create persisted")
	}
	if err := c.Create(ctx, cr("a")); err != nil {
		t.Fatal(err)
	}
	o2 := cr("a")
	_ = c.Get(ctx, types.NamespacedName{Name: "a"}, o2)
	unstructured.SetNestedField(o2.Object, int64(7), "spec", "a")
	if err := c.Update(ctx, o2, client.DryRunAll); err != nil {
		t.Fatal(err)
	}
	if a, _, _ := unstructured.NestedInt64(w.GetObj(KeyOf(o.Object)), "spec", "a"); a != 1 {
		t.Fatal("dry-run update persisted")
	}
}

func TestGarbageCollector(t *testing.T) {
	w := world()
	c := w.Client("t")
	owner := cr("owner")
	owner.SetKind("Owner")
	if err := c.Create(ctx, owner); err != nil {
		t.Fatal(err)
	}
	dep := cr("dep")
	unstructured.SetNestedSlice(dep.Object, []any{ownerRef(string(owner.GetUID()), "owner", true)}, "metadata", "ownerReferences")
	if err := c.Create(ctx, dep); err != nil {
		t.Fatal(err)
	}
	if n := len(w.GCPending()); n != 0 {
		t.Fatalf("nothing to collect yet, got %d", n)
	}
	// foreground deletion waits for the blocking dependent
	if err := c.Delete(ctx, owner, client.PropagationPolicy(metav1.DeletePropagationForeground)); err != nil {
		t.Fatal(err)
	}
	if w.GetObj(KeyOf(owner.Object)) == nil {
		t.Fatal("foreground-deleted owner must stay until dependents are gone")
	}
	w.GCRun(10)
	if w.GetObj(KeyOf(owner.Object)) != nil || w.GetObj(KeyOf(dep.Object)) != nil {
		t.Fatal("gc should have removed dependent and owner")
	}
	// background: owner goes at once, dependent is collected afterwards
	owner2 := cr("owner2")
	owner2.SetKind("Owner")
	_ = c.Create(ctx, owner2)
	dep2 := cr("dep2")
	unstructured.SetNestedSlice(dep2.Object, []any{ownerRef(string(owner2.GetUID()), "owner2", true)}, "metadata", "ownerReferences")
	_ = c.Create(ctx, dep2)
	_ = c.Delete(ctx, owner2)
	if w.GetObj(KeyOf(dep2.Object)) == nil {
		t.Fatal("dependent must survive until the collector runs")
	}
	w.GCRun(10)
	if w.GetObj(KeyOf(dep2.Object)) != nil {
		t.Fatal("orphaned dependent not collected")
	}
}

func TestFaultsAndCrash(t *testing.T) {
	w := world()
	c := w.Client("r")
	c.Fault(0, ErrorAfter)
	err := c.Create(ctx, cr("a"))
	if !kerrors.IsTimeout(err) {
		t.Fatalf("want timeout, got %v", err)
	}
	if w.GetObj(Key{Group: "example.org", Kind: "Thing", Name: "a"}) == nil {
		t.Fatal("ErrorAfter must apply the write")
	}
	c.Fault(1, CrashAfter)
	crashed := RunActor(func() { _ = c.Create(ctx, cr("b")) })
	if !crashed || w.GetObj(Key{Group: "example.org", Kind: "Thing", Name: "b"}) == nil {
		t.Fatal("CrashAfter must apply the write and kill the actor")
	}
	c.Fault(2, CrashBefore)
	crashed = RunActor(func() { _ = c.Create(ctx, cr("c")) })
	if !crashed || w.GetObj(Key{Group: "example.org", Kind: "Thing", Name: "c"}) != nil {
		t.Fatal("CrashBefore must not apply the write")
	}
	c.Fault(3, Conflict)
	if err := c.Create(ctx, cr("d")); !kerrors.IsConflict(err) {
		t.Fatalf("want conflict, got %v", err)
	}
}

func TestLaggingReader(t *testing.T) {
	w := world()
	c := w.Client("t")
	o := cr("a")
	_ = c.Create(ctx, o)
	unstructured.SetNestedField(o.Object, int64(2), "spec", "a")
	_ = c.Update(ctx, o)
	lc := w.LaggingClient("lag", func(gk schema.GroupKind) (int64, bool) { return 1, gk.Kind == "Thing" })
	got := cr("a")
	if err := lc.Get(ctx, types.NamespacedName{Name: "a"}, got); err != nil {
		t.Fatal(err)
	}
	if a, _, _ := unstructured.NestedInt64(got.Object, "spec", "a"); a != 1 {
		t.Fatalf("lagging read should see the old version, got %d", a)
	}
	// writing with the stale RV conflicts
	unstructured.SetNestedField(got.Object, int64(3), "spec", "a")
	if err := lc.Update(ctx, got); !kerrors.IsConflict(err) {
		t.Fatalf("write from stale read: want conflict, got %v", err)
	}
}

func TestScheduler(t *testing.T) {
	w := world()
	s := w.NewScheduler()
	for _, a := range []string{"A", "B"} {
		a := a
		c := w.Client(a)
		s.Go(a, func() {
			_ = c.Create(ctx, cr(a+"1"))
			_ = c.Create(ctx, cr(a+"2"))
		})
	}
	// always pick the last enabled actor: B runs to completion first
	sch := s.Run(func(en, _ []string) int { return len(en) - 1 }, 100)
	want := "[B B B A A A]"
	if fmt.Sprint(sch) != want {
		t.Fatalf("schedule %v, want %v", sch, want)
	}
	var creates []string
	for _, e := range w.Log(0) {
		if e.Verb == "create" {
			creates = append(creates, e.Key.Name)
		}
	}
	if fmt.Sprint(creates) != "[B1 B2 A1 A2]" {
		t.Fatalf("creates %v", creates)
	}
	w.SetScheduler(nil)
}

func TestNamespacedValidation(t *testing.T) {
	w := world()
	c := w.Client("t")
	s := &corev1.Secret{ObjectMeta: metav1.ObjectMeta{Name: "s"}}
	if err := c.Create(ctx, s); !kerrors.IsInvalid(err) {
		t.Fatalf("namespaced kind without namespace: %v", err)
	}
	_ = ptr.To(true)
}
