package sim

import (
	"fmt"
	"sync"
)

// Scheduler serialises actors at API-call granularity: every actor runs in its own goroutine
// but parks before each simulated API call until it is granted the turn, so exactly one actor
// runs between two calls. The sequence of grants is the schedule; it is reproducible from the
// chooser.
type Scheduler struct {
	mu      sync.Mutex
	cond    *sync.Cond
	parked  map[string]string // actor -> verb it is about to issue
	live    map[string]bool
	granted string
	order   []string // registration order, for deterministic enabled lists
	done    map[string]any
	trace   []string
}

// NewScheduler attaches a scheduler to the world. Detach with w.SetScheduler(nil).
func (w *World) NewScheduler() *Scheduler {
	s := &Scheduler{parked: map[string]string{}, live: map[string]bool{}, done: map[string]any{}}
	s.cond = sync.NewCond(&s.mu)
	w.sched = s
	return s
}

// SetScheduler attaches or detaches a scheduler.
func (w *World) SetScheduler(s *Scheduler) { w.sched = s }

// gate parks the calling actor until it is granted the turn. Actors that were not started
// through Go (e.g. the harness itself) pass straight through.
func (s *Scheduler) gate(actor, verb string) {
	s.mu.Lock()
	defer s.mu.Unlock()
	if !s.live[actor] {
		return
	}
	s.parked[actor] = verb
	s.cond.Broadcast()
	for s.granted != actor {
		s.cond.Wait()
	}
	s.granted = ""
	delete(s.parked, actor)
}

// Go starts an actor. f runs in a new goroutine and first parks at a start gate. A Crash
// panic ends the actor quietly; any other panic is kept and re-raised by Run.
func (s *Scheduler) Go(actor string, f func()) {
	s.mu.Lock()
	if s.live[actor] {
		s.mu.Unlock()
		panic("sim: actor already live: " + actor)
	}
	s.live[actor] = true
	s.order = append(s.order, actor)
	s.mu.Unlock()
	go func() {
		defer func() {
			r := recover()
			s.mu.Lock()
			if r != nil {
				if _, ok := r.(Crash); !ok {
					s.done[actor] = r
				}
			}
			delete(s.live, actor)
			delete(s.parked, actor)
			s.cond.Broadcast()
			s.mu.Unlock()
		}()
		s.gate(actor, "start")
		f()
	}()
}

// Step waits until every live actor is parked, then lets choose pick one of the enabled
// actors (given in registration order) and grants it one step. It returns false when no actor
// is left.
func (s *Scheduler) Step(choose func(enabled []string, verbs []string) int) bool {
	s.mu.Lock()
	defer s.mu.Unlock()
	for {
		allParked := true
		for a := range s.live {
			if _, ok := s.parked[a]; !ok {
				allParked = false
			}
		}
		if allParked && s.granted == "" {
			break
		}
		s.cond.Wait()
	}
	if len(s.live) == 0 {
		return false
	}
	var enabled, verbs []string
	for _, a := range s.order {
		if s.live[a] {
			enabled = append(enabled, a)
			verbs = append(verbs, s.parked[a])
		}
	}
	i := choose(enabled, verbs)
	if i < 0 || i >= len(enabled) {
		i = 0
	}
	s.trace = append(s.trace, enabled[i])
	s.granted = enabled[i]
	s.cond.Broadcast()
	return true
}

// Run steps until all actors have finished and returns the schedule. A non-crash panic of an
// actor is re-raised here.
func (s *Scheduler) Run(choose func(enabled []string, verbs []string) int, maxSteps int) []string {
	for n := 0; n < maxSteps; n++ {
		if !s.Step(choose) {
			break
		}
	}
	s.mu.Lock()
	defer s.mu.Unlock()
	for a, r := range s.done {
		panic(fmt.Sprintf("actor %s panicked: %v", a, r))
	}
	return append([]string(nil), s.trace...)
}

// Live returns the number of unfinished actors.
func (s *Scheduler) Live() int {
	s.mu.Lock()
	defer s.mu.Unlock()
	return len(s.live)
}

// Trace returns the schedule so far.
func (s *Scheduler) Trace() []string {
	s.mu.Lock()
	defer s.mu.Unlock()
	return append([]string(nil), s.trace...)
}

// Segment is one stretch of a scheduling plan: grant Actor up to Steps turns (Steps < 0: until
// it finishes).
type Segment struct {
	Actor string
	Steps int
}

// PlanChooser returns a chooser that follows the plan segment by segment; a segment whose
// actor is not enabled (finished or never started) is skipped. When the plan is exhausted the
// remaining actors run to completion in registration order. It makes bounded-preemption
// enumeration deterministic: "A runs k calls, then B runs to completion, then A finishes".
func PlanChooser(plan []Segment) func(enabled, verbs []string) int {
	i, used := 0, 0
	return func(enabled, _ []string) int {
		for i < len(plan) {
			seg := plan[i]
			idx := -1
			for k, a := range enabled {
				if a == seg.Actor {
					idx = k
				}
			}
			if idx < 0 || (seg.Steps >= 0 && used >= seg.Steps) {
				i++
				used = 0
				continue
			}
			used++
			return idx
		}
		return 0
	}
}
