package sim

import (
	"context"
	"encoding/json"
	"errors"
	"fmt"
	"reflect"
	"strings"

	jsonpatch "github.com/evanphx/json-patch"
	kerrors "k8s.io/apimachinery/pkg/api/errors"
	"k8s.io/apimachinery/pkg/api/meta"
	metav1 "k8s.io/apimachinery/pkg/apis/meta/v1"
	"k8s.io/apimachinery/pkg/apis/meta/v1/unstructured"
	"k8s.io/apimachinery/pkg/fields"
	"k8s.io/apimachinery/pkg/labels"
	"k8s.io/apimachinery/pkg/runtime"
	"k8s.io/apimachinery/pkg/runtime/schema"
	"k8s.io/apimachinery/pkg/types"
	kjson "k8s.io/apimachinery/pkg/util/json"
	"k8s.io/apimachinery/pkg/util/validation/field"
	"sigs.k8s.io/controller-runtime/pkg/client"
	"sigs.k8s.io/controller-runtime/pkg/client/apiutil"
)

// Client is a client.Client bound to one actor. It counts the actor's calls, injects the
// planned faults and parks at the scheduler gate before every call.
type Client struct {
	w     *World
	Actor string
	// Manager is the field manager recorded for non-apply writes (the user agent).
	Manager string

	calls int
	plan  map[int]Outcome
	// lag, when set, serves reads of the selected kinds from an older store version.
	lag func(gk schema.GroupKind) (behind int64, ok bool)
	// CacheReads makes List behave like controller-runtime's informer-cache reader instead of the
	// API server: a Limit truncates the result WITHOUT a continue token, and a request that
	// carries a continue token is refused (cache_reader.go). Controllers built on mgr.GetClient()
	// read this way.
	CacheReads bool
	// OnCall, if set, is invoked (unlocked) before every call with the call index.
	OnCall func(idx int, verb string)
	// AfterWrite, if set, is invoked (unlocked) when a write request has been processed by the
	// server and before its response reaches the caller: whatever it does happens while the
	// response is in flight. It is not invoked for a request that crashes the actor.
	AfterWrite func(verb string, k Key, err error)
	// FaultFn, if set, is consulted for calls that have no planned fault: it may select an
	// outcome from the call's verb and target (e.g. "the first get of a composed kind").
	FaultFn func(idx int, verb string, k Key) Outcome
}

var _ client.Client = &Client{}

// Client returns a client for the named actor.
func (w *World) Client(actor string) *Client {
	c := &Client{w: w, Actor: actor, Manager: "crossplane", plan: map[int]Outcome{}}
	w.mu.Lock()
	if f := w.actorLag[actor]; f != nil {
		c.lag = f
	}
	w.mu.Unlock()
	return c
}

// SetActorLag makes every client created from now on for the named actor a lagging reader
// (see LaggingClient); nil removes it. For code under test that builds its own clients.
func (w *World) SetActorLag(actor string, lag func(gk schema.GroupKind) (int64, bool)) {
	w.mu.Lock()
	defer w.mu.Unlock()
	if w.actorLag == nil {
		w.actorLag = map[string]func(schema.GroupKind) (int64, bool){}
	}
	if lag == nil {
		delete(w.actorLag, actor)
		return
	}
	w.actorLag[actor] = lag
}

// LaggingClient returns a client whose reads of kinds selected by lag are served from the
// store as it was `behind` resource versions ago (the stale informer cache).
func (w *World) LaggingClient(actor string, lag func(gk schema.GroupKind) (int64, bool)) *Client {
	c := w.Client(actor)
	c.lag = lag
	return c
}

// Fault plans outcome o for the actor's call with index idx (0-based since ResetCalls).
func (c *Client) Fault(idx int, o Outcome) { c.plan[idx] = o }

// ClearFaults removes all planned faults.
func (c *Client) ClearFaults() { c.plan = map[int]Outcome{} }

// ResetCalls restarts the call counter (start of a reconcile).
func (c *Client) ResetCalls() { c.calls = 0 }

// Calls returns the number of calls since ResetCalls.
func (c *Client) Calls() int { return c.calls }

// World returns the world the client talks to.
func (c *Client) World() *World { return c.w }

// RunActor runs f and reports whether it was killed by an injected crash. Any other panic
// propagates.
func RunActor(f func()) (crashed bool) {
	defer func() {
		if r := recover(); r != nil {
			if _, ok := r.(Crash); ok {
				crashed = true
				return
			}
			panic(r)
		}
	}()
	f()
	return false
}

func (c *Client) begin(verb string) (int, Outcome) {
	idx := c.calls
	c.calls++
	if c.OnCall != nil {
		c.OnCall(idx, verb)
	}
	if s := c.w.sched; s != nil {
		s.gate(c.Actor, verb)
	}
	return idx, c.plan[idx]
}

func injectedErr(o Outcome, gr schema.GroupResource, name string) error {
	switch o {
	case Conflict:
		return kerrors.NewConflict(gr, name, errors.New("injected: the object has been modified"))
	case ServerError:
		return kerrors.NewInternalError(errors.New("injected server error"))
	case Timeout, ErrorAfter:
		return kerrors.NewTimeoutError("injected timeout", 1)
	case NotServed:
		return &meta.NoKindMatchError{GroupKind: schema.GroupKind{Group: gr.Group, Kind: gr.Resource}, SearchedVersions: []string{"v1"}}
	case Unavailable:
		return kerrors.NewServiceUnavailable("injected: the server is currently unable to handle the request")
	case Missing:
		return kerrors.NewNotFound(gr, name)
	case Expired:
		return kerrors.NewResourceExpired("injected: the provided continue parameter is too old to display a consistent list result")
	}
	return nil
}

// Scheme implements client.Client.
func (c *Client) Scheme() *runtime.Scheme { return c.w.Scheme }

// RESTMapper implements client.Client.
func (c *Client) RESTMapper() meta.RESTMapper { return nil }

// GroupVersionKindFor implements client.Client.
func (c *Client) GroupVersionKindFor(obj runtime.Object) (schema.GroupVersionKind, error) {
	return c.gvk(obj)
}

// IsObjectNamespaced implements client.Client.
func (c *Client) IsObjectNamespaced(obj runtime.Object) (bool, error) {
	gvk, err := c.gvk(obj)
	if err != nil {
		return false, err
	}
	c.w.mu.Lock()
	defer c.w.mu.Unlock()
	ki, _ := c.w.kindInfo(gvk.GroupKind())
	return ki.Namespaced, nil
}

func (c *Client) gvk(obj runtime.Object) (schema.GroupVersionKind, error) {
	if u, ok := obj.(runtime.Unstructured); ok {
		gvk := u.GetObjectKind().GroupVersionKind()
		if gvk.Kind == "" {
			return gvk, fmt.Errorf("unstructured object has no kind")
		}
		return gvk, nil
	}
	return apiutil.GVKForObject(obj, c.w.Scheme)
}

// toJSON converts any client object into its JSON map with apiVersion/kind set.
func (c *Client) toJSON(obj runtime.Object) (map[string]any, schema.GroupVersionKind, error) {
	gvk, err := c.gvk(obj)
	if err != nil {
		return nil, gvk, err
	}
	var m map[string]any
	if u, ok := obj.(runtime.Unstructured); ok {
		m = runtime.DeepCopyJSON(u.UnstructuredContent())
	} else {
		// JSON round trip rather than DefaultUnstructuredConverter: this is what goes over the wire.
		b, err := json.Marshal(obj)
		if err != nil {
			return nil, gvk, err
		}
		if err := kjson.Unmarshal(b, &m); err != nil {
			return nil, gvk, err
		}
	}
	m["apiVersion"] = gvk.GroupVersion().String()
	m["kind"] = gvk.Kind
	return m, gvk, nil
}

// normalizeNumbers turns float64 values that hold integers into int64, the representation
// unstructured content uses. (Request and stored bodies are decoded with the API machinery's
// int-preserving decoder; this is only for values built by Go code.)
func normalizeNumbers(v any) any {
	switch t := v.(type) {
	case map[string]any:
		for k, e := range t {
			t[k] = normalizeNumbers(e)
		}
		return t
	case []any:
		for i, e := range t {
			t[i] = normalizeNumbers(e)
		}
		return t
	case float64:
		if t == float64(int64(t)) && t < 1e15 && t > -1e15 {
			return int64(t)
		}
		return t
	}
	return v
}

// fromJSON loads the stored JSON into the caller's object, served at the requested version.
func (c *Client) fromJSON(m map[string]any, gvk schema.GroupVersionKind, obj runtime.Object) error {
	m = runtime.DeepCopyJSON(m)
	m["apiVersion"] = gvk.GroupVersion().String()
	m["kind"] = gvk.Kind
	if u, ok := obj.(runtime.Unstructured); ok {
		u.SetUnstructuredContent(m)
		return nil
	}
	// zero the target first, like a decoder into a fresh object
	rv := reflect.ValueOf(obj)
	if rv.Kind() == reflect.Ptr && !rv.IsNil() {
		rv.Elem().Set(reflect.Zero(rv.Elem().Type()))
	}
	b, err := json.Marshal(m)
	if err != nil {
		return err
	}
	if err := json.Unmarshal(b, obj); err != nil {
		return err
	}
	// controller-runtime's cache reader sets the GVK on typed objects it returns, and its client
	// preserves a GVK that was set before a write: typed objects therefore carry their GVK
	obj.GetObjectKind().SetGroupVersionKind(gvk)
	return nil
}

func keyFor(gvk schema.GroupVersionKind, ns, name string) Key {
	return Key{Group: gvk.Group, Kind: gvk.Kind, Namespace: ns, Name: name}
}

// Get implements client.Reader.
func (c *Client) Get(_ context.Context, key client.ObjectKey, obj client.Object, _ ...client.GetOption) error {
	idx, out := c.begin("get")
	gvk, err := c.gvk(obj)
	if err != nil {
		return err
	}
	k := keyFor(gvk, key.Namespace, key.Name)
	w := c.w
	w.mu.Lock()
	ev := Event{Actor: c.Actor, Call: idx, Verb: "get", Key: k, Version: gvk.Version}
	if ki, ok := w.kindInfo(k.GK()); ok && !ki.Namespaced {
		k.Namespace = ""
		ev.Key = k
	}
	if w.unserved[k.GK()] {
		e := &meta.NoKindMatchError{GroupKind: k.GK(), SearchedVersions: []string{gvk.Version}}
		ev.Err, ev.Reason = e.Error(), "NoKindMatch"
		w.record(&ev)
		w.mu.Unlock()
		return e
	}
	if out == OK && c.FaultFn != nil {
		out = c.FaultFn(idx, "get", k)
	}
	if out != OK {
		ev.Injected = out.String()
		if out == CrashBefore || out == CrashAfter {
			w.record(&ev)
			w.mu.Unlock()
			panic(Crash{c.Actor, idx})
		}
		e := injectedErr(ServerErrorIfConflict(out), w.gr(k), k.Name)
		ev.Err, ev.Reason = e.Error(), string(kerrors.ReasonForError(e))
		w.record(&ev)
		w.mu.Unlock()
		return e
	}
	var o map[string]any
	if c.lag != nil {
		if behind, ok := c.lag(k.GK()); ok {
			o = w.at(k, w.lagRV(behind))
			ev.Note = fmt.Sprintf("lag=%d", behind)
		} else {
			o = w.objs[k]
		}
	} else {
		o = w.objs[k]
	}
	if o == nil {
		e := kerrors.NewNotFound(w.gr(k), k.Name)
		ev.Err, ev.Reason = e.Error(), "NotFound"
		w.record(&ev)
		w.mu.Unlock()
		return e
	}
	ev.RVBefore = str(o, "metadata", "resourceVersion")
	cp := runtime.DeepCopyJSON(o)
	if w.KeepBodies {
		ev.After = cp // what the reader was served (possibly stale)
	}
	w.record(&ev)
	w.mu.Unlock()
	return c.fromJSON(cp, gvk, obj)
}

// ServerErrorIfConflict maps outcomes that make no sense for reads onto a server error.
func ServerErrorIfConflict(o Outcome) Outcome {
	if o == Conflict {
		return ServerError
	}
	return o
}

// List implements client.Reader.
func (c *Client) List(_ context.Context, list client.ObjectList, opts ...client.ListOption) error {
	idx, out := c.begin("list")
	lo := client.ListOptions{}
	lo.ApplyOptions(opts)
	lgvk, err := c.gvk(list)
	if err != nil {
		return err
	}
	gvk := lgvk
	gvk.Kind = strings.TrimSuffix(gvk.Kind, "List")
	w := c.w
	w.mu.Lock()
	ev := Event{Actor: c.Actor, Call: idx, Verb: "list", Key: Key{Group: gvk.Group, Kind: gvk.Kind, Namespace: lo.Namespace}, Version: gvk.Version}
	if w.unserved[gvk.GroupKind()] {
		e := &meta.NoKindMatchError{GroupKind: gvk.GroupKind(), SearchedVersions: []string{gvk.Version}}
		ev.Err, ev.Reason = e.Error(), "NoKindMatch"
		w.record(&ev)
		w.mu.Unlock()
		return e
	}
	if out == OK && c.FaultFn != nil {
		out = c.FaultFn(idx, "list", ev.Key)
	}
	if out != OK {
		ev.Injected = out.String()
		if out == CrashBefore || out == CrashAfter {
			w.record(&ev)
			w.mu.Unlock()
			panic(Crash{c.Actor, idx})
		}
		e := injectedErr(ServerErrorIfConflict(out), w.gr(ev.Key), "")
		ev.Err, ev.Reason = e.Error(), string(kerrors.ReasonForError(e))
		w.record(&ev)
		w.mu.Unlock()
		return e
	}
	var behind int64
	lagging := false
	if c.lag != nil {
		behind, lagging = c.lag(gvk.GroupKind())
	}
	v := &View{w}
	var items []map[string]any
	for _, k := range v.Keys() {
		if k.GK() != gvk.GroupKind() {
			continue
		}
		if lo.Namespace != "" && k.Namespace != lo.Namespace {
			continue
		}
		o := w.objs[k]
		if lagging {
			o = w.at(k, w.lagRV(behind))
			if o == nil {
				continue
			}
		}
		if lo.LabelSelector != nil {
			ls, _, _ := unstructured.NestedStringMap(o, "metadata", "labels")
			if !lo.LabelSelector.Matches(labels.Set(ls)) {
				continue
			}
		}
		if lo.FieldSelector != nil && !lo.FieldSelector.Empty() {
			ok, ferr := c.matchFields(gvk, o, lo.FieldSelector)
			if ferr != nil {
				ev.Err = ferr.Error()
				w.record(&ev)
				w.mu.Unlock()
				return ferr
			}
			if !ok {
				continue
			}
		}
		items = append(items, runtime.DeepCopyJSON(o))
	}
	if lagging {
		// objects deleted from the live store but still visible in the stale view
		for k := range w.hist {
			if _, live := w.objs[k]; live || k.GK() != gvk.GroupKind() {
				continue
			}
			if o := w.at(k, w.lagRV(behind)); o != nil && (lo.Namespace == "" || k.Namespace == lo.Namespace) {
				items = append(items, runtime.DeepCopyJSON(o))
			}
		}
	}
	// pagination: a page holds at most min(limit, PageCap) items; the continue token is the
	// offset into the (key-ordered) full result
	next := ""
	if c.CacheReads {
		if lo.Continue != "" {
			e := fmt.Errorf("continue list option is not supported by the cache")
			ev.Err = e.Error()
			w.record(&ev)
			w.mu.Unlock()
			return e
		}
		if lo.Limit > 0 && int64(len(items)) > lo.Limit {
			items = items[:lo.Limit]
		}
	} else if page := pageSize(lo.Limit, w.PageCap); page > 0 || lo.Continue != "" {
		off := 0
		if lo.Continue != "" {
			if _, serr := fmt.Sscanf(lo.Continue, "off:%d", &off); serr != nil || off < 0 {
				e := kerrors.NewBadRequest("sim: invalid continue token " + lo.Continue)
				ev.Err, ev.Reason = e.Error(), string(kerrors.ReasonForError(e))
				w.record(&ev)
				w.mu.Unlock()
				return e
			}
		}
		if off > len(items) {
			off = len(items)
		}
		items = items[off:]
		if page > 0 && len(items) > page {
			items = items[:page]
			next = fmt.Sprintf("off:%d", off+page)
		}
	}
	ev.Note = fmt.Sprintf("items=%d", len(items))
	if lo.Continue != "" || next != "" {
		ev.Note += fmt.Sprintf(" continue=%q next=%q", lo.Continue, next)
	}
	w.record(&ev)
	w.mu.Unlock()
	if next != "" || lo.Continue != "" {
		if la, aerr := meta.ListAccessor(list); aerr == nil {
			la.SetContinue(next)
		}
	}

	if ul, ok := list.(*unstructured.UnstructuredList); ok {
		ul.Items = ul.Items[:0]
		for _, it := range items {
			it["apiVersion"] = gvk.GroupVersion().String()
			it["kind"] = gvk.Kind
			ul.Items = append(ul.Items, unstructured.Unstructured{Object: it})
		}
		return nil
	}
	objs := make([]runtime.Object, 0, len(items))
	for _, it := range items {
		o, err := c.w.Scheme.New(gvk)
		if err != nil {
			return err
		}
		if err := c.fromJSON(it, gvk, o); err != nil {
			return err
		}
		objs = append(objs, o)
	}
	return meta.SetList(list, objs)
}

func pageSize(limit int64, pageCap int) int {
	switch {
	case limit > 0 && pageCap > 0:
		return min(int(limit), pageCap)
	case limit > 0:
		return int(limit)
	}
	return 0
}

func (c *Client) matchFields(gvk schema.GroupVersionKind, o map[string]any, sel fields.Selector) (bool, error) {
	for _, req := range sel.Requirements() {
		fn := c.w.idx[gvk.GroupKind()][req.Field]
		if fn == nil {
			switch req.Field {
			case "metadata.name":
				if str(o, "metadata", "name") != req.Value {
					return false, nil
				}
				continue
			case "metadata.namespace":
				if str(o, "metadata", "namespace") != req.Value {
					return false, nil
				}
				continue
			}
			return false, fmt.Errorf("sim: index with name %s does not exist for %s", req.Field, gvk.GroupKind())
		}
		obj, err := c.w.Scheme.New(gvk)
		if err != nil {
			obj = &unstructured.Unstructured{}
		}
		co, ok := obj.(client.Object)
		if !ok {
			return false, fmt.Errorf("sim: %T is not a client.Object", obj)
		}
		if err := c.fromJSON(o, gvk, co); err != nil {
			return false, err
		}
		hit := false
		for _, v := range fn(co) {
			if v == req.Value {
				hit = true
				break
			}
		}
		if !hit {
			return false, nil
		}
	}
	return true, nil
}

// writeReq describes one mutating request for the common write path.
type writeReq struct {
	verb       string
	gvk        schema.GroupVersionKind
	key        Key
	sub        string
	patchType  string
	fieldOwner string
	force      bool
	dryRun     bool
	body       map[string]any
	// compute returns the new object given the current one (nil = absent). Returning
	// (nil, nil) means "remove the object".
	compute func(cur map[string]any) (map[string]any, error)
	delOpts *client.DeleteOptions
	// collection: the delete is one element of a deletecollection request
	collection bool
}

// do runs the common write path: fault injection, admission, compute, validation, storage,
// trace. It returns the resulting stored object (or the would-be object for dry-run).
func (c *Client) do(req *writeReq) (map[string]any, error) {
	m, err := c.doInner(req)
	if c.AfterWrite != nil {
		c.AfterWrite(req.verb, req.key, err)
	}
	return m, err
}

func (c *Client) doInner(req *writeReq) (map[string]any, error) {
	idx, out := c.begin(req.verb)
	w := c.w
	w.mu.Lock()
	if ki, ok := w.kindInfo(req.key.GK()); ok && !ki.Namespaced {
		req.key.Namespace = ""
	}
	ev := Event{Actor: c.Actor, Call: idx, Verb: req.verb, Key: req.key, Version: req.gvk.Version, Sub: req.sub,
		PatchType: req.patchType, FieldOwner: req.fieldOwner, Force: req.force, DryRun: req.dryRun, Body: req.body}
	if w.unserved[req.key.GK()] {
		e := &meta.NoKindMatchError{GroupKind: req.key.GK(), SearchedVersions: []string{req.gvk.Version}}
		ev.Err, ev.Reason = e.Error(), "NoKindMatch"
		w.record(&ev)
		w.mu.Unlock()
		return nil, e
	}
	if out == OK && c.FaultFn != nil {
		out = c.FaultFn(idx, req.verb, req.key)
	}
	if out != OK {
		ev.Injected = out.String()
	}
	fail := func(e error) (map[string]any, error) {
		ev.Err, ev.Reason = e.Error(), string(kerrors.ReasonForError(e))
		w.record(&ev)
		w.mu.Unlock()
		return nil, e
	}
	switch out {
	case CrashBefore:
		w.record(&ev)
		w.mu.Unlock()
		panic(Crash{c.Actor, idx})
	case Conflict, ServerError, Timeout, NotServed, Unavailable, Missing, Expired:
		return fail(injectedErr(out, w.gr(req.key), req.key.Name))
	}

	cur := w.objs[req.key]
	next, err := req.compute(cur)
	if err != nil {
		return fail(err)
	}

	// admission (validating webhooks, scripted rejections) runs unlocked so that a real
	// handler may read through its own client
	if len(w.admit) > 0 {
		op := "UPDATE"
		switch {
		case req.verb == "delete":
			op = "DELETE"
		case cur == nil:
			op = "CREATE"
		}
		ar := &AdmitRequest{Actor: c.Actor, Operation: op, Key: req.key, Version: req.gvk.Version, Sub: req.sub, DryRun: req.dryRun,
			Old: copyOrNil(cur), New: copyOrNil(next)}
		if req.verb == "delete" {
			ar.New = nil
			ar.Options = req.delOpts
			ar.Collection = req.collection
		}
		admit := append([]AdmitFunc(nil), w.admit...)
		w.mu.Unlock()
		var aerr error
		for _, a := range admit {
			if aerr = a(w, ar); aerr != nil {
				break
			}
		}
		w.mu.Lock()
		if aerr != nil {
			return fail(aerr)
		}
		// the store may have moved while unlocked: recompute against the current object
		cur = w.objs[req.key]
		next, err = req.compute(cur)
		if err != nil {
			return fail(err)
		}
	}

	ev.RVBefore = str(cur, "metadata", "resourceVersion")
	if w.KeepBodies {
		ev.Before = copyOrNil(cur)
	}
	result := next
	switch {
	case req.dryRun:
		// fully computed and validated, nothing persisted
		if next != nil {
			result = runtime.DeepCopyJSON(next)
			if str(result, "metadata", "uid") == "" {
				unstructured.SetNestedField(result, "dry-run-uid", "metadata", "uid") //nolint:errcheck
			}
		}
	case next == nil:
		if cur != nil {
			w.remove(req.key)
			ev.Changed, ev.Removed = true, true
		}
	case cur != nil && equalIgnoringManagedTime(cur, next):
		result = cur // no-op write: resourceVersion does not move
		ev.RVAfter = ev.RVBefore
	default:
		unstructured.SetNestedField(next, w.nextRV(), "metadata", "resourceVersion") //nolint:errcheck
		w.put(req.key, next)
		ev.Changed = true
		ev.RVAfter = str(next, "metadata", "resourceVersion")
	}
	if w.KeepBodies {
		ev.After = copyOrNil(w.objs[req.key])
	}
	var ret error
	if out == ErrorAfter {
		ret = injectedErr(out, w.gr(req.key), req.key.Name)
		ev.Err, ev.Reason = ret.Error(), "Timeout"
	}
	w.record(&ev)
	cp := copyOrNil(result)
	w.mu.Unlock()
	if out == CrashAfter {
		panic(Crash{c.Actor, idx})
	}
	return cp, ret
}

func copyOrNil(m map[string]any) map[string]any {
	if m == nil {
		return nil
	}
	return runtime.DeepCopyJSON(m)
}

// equalIgnoringManagedTime compares two objects ignoring managedFields timestamps, like the
// apiserver's no-op detection.
func equalIgnoringManagedTime(a, b map[string]any) bool {
	return reflect.DeepEqual(stripManagedTime(a), stripManagedTime(b))
}

func stripManagedTime(o map[string]any) map[string]any {
	mf, ok, _ := unstructured.NestedSlice(o, "metadata", "managedFields")
	if !ok {
		return o
	}
	cp := runtime.DeepCopyJSON(o)
	for _, e := range mf {
		if m, ok := e.(map[string]any); ok {
			delete(m, "time")
		}
	}
	unstructured.SetNestedSlice(cp, mf, "metadata", "managedFields") //nolint:errcheck
	return cp
}

func invalid(gvk schema.GroupVersionKind, name, path, msg string) error {
	return kerrors.NewInvalid(gvk.GroupKind(), name, field.ErrorList{field.Invalid(field.NewPath(path), "", msg)})
}

// validate applies the object-meta rules every write must satisfy.
func (w *World) validate(gvk schema.GroupVersionKind, o map[string]any) error {
	name := str(o, "metadata", "name")
	if name == "" {
		return invalid(gvk, name, "metadata.name", "name or generateName is required")
	}
	ki, known := w.kindInfo(gvk.GroupKind())
	ns := str(o, "metadata", "namespace")
	if known {
		if ki.Namespaced && ns == "" {
			return invalid(gvk, name, "metadata.namespace", "Required value")
		}
		if !ki.Namespaced && ns != "" {
			return invalid(gvk, name, "metadata.namespace", "namespace must be empty for cluster scoped resources")
		}
	}
	ctrl := 0
	seen := map[string]bool{}
	for _, r := range OwnerRefs(o) {
		if b, _ := r["controller"].(bool); b {
			ctrl++
		}
		uid, _ := r["uid"].(string)
		if uid == "" || str(r, "name") == "" || str(r, "kind") == "" || str(r, "apiVersion") == "" {
			return invalid(gvk, name, "metadata.ownerReferences", "uid, name, kind and apiVersion must not be empty")
		}
		if seen[uid] {
			return invalid(gvk, name, "metadata.ownerReferences", "duplicate owner reference uid")
		}
		seen[uid] = true
	}
	if ctrl > 1 {
		return invalid(gvk, name, "metadata.ownerReferences", "Only one reference can have Controller set to true")
	}
	return nil
}

// dropNulls removes JSON nulls (the server never persists them for non-nullable fields).
func dropNulls(v any) any {
	switch t := v.(type) {
	case map[string]any:
		for k, e := range t {
			if e == nil {
				delete(t, k)
				continue
			}
			t[k] = dropNulls(e)
		}
		return t
	case []any:
		for i, e := range t {
			t[i] = dropNulls(e)
		}
		return t
	}
	return v
}

func hasStatusSub(w *World, gk schema.GroupKind) bool {
	ki, _ := w.kindInfo(gk)
	return !ki.NoStatus
}

// prepareUpdate applies the server-side rules for replacing cur by next.
func (w *World) prepareUpdate(gvk schema.GroupVersionKind, sub string, cur, next map[string]any) (map[string]any, error) {
	name := str(cur, "metadata", "name")
	if n := str(next, "metadata", "name"); n != "" && n != name {
		return nil, invalid(gvk, name, "metadata.name", "field is immutable")
	}
	if u := str(next, "metadata", "uid"); u != "" && u != str(cur, "metadata", "uid") {
		return nil, kerrors.NewConflict(w.gr(KeyOf(cur)), name, fmt.Errorf("Precondition failed: UID in precondition: %s, UID in object meta: %s", u, str(cur, "metadata", "uid")))
	}
	if rv := str(next, "metadata", "resourceVersion"); rv != "" && rv != str(cur, "metadata", "resourceVersion") {
		return nil, kerrors.NewConflict(w.gr(KeyOf(cur)), name, errors.New("the object has been modified; please apply your changes to the latest version and try again"))
	}
	next = dropNulls(next).(map[string]any)
	md, _ := next["metadata"].(map[string]any)
	if md == nil {
		md = map[string]any{}
		next["metadata"] = md
	}
	cmd, _ := cur["metadata"].(map[string]any)
	for _, f := range []string{"uid", "creationTimestamp", "name", "namespace", "resourceVersion", "generation", "deletionTimestamp", "deletionGracePeriodSeconds"} {
		if v, ok := cmd[f]; ok {
			md[f] = v
		} else {
			delete(md, f)
		}
	}
	delete(md, "generateName")
	if g, ok := cmd["generateName"]; ok {
		md["generateName"] = g
	}
	if fs, ok := md["finalizers"].([]any); ok && len(fs) == 0 {
		delete(md, "finalizers")
	}
	if ors, ok := md["ownerReferences"].([]any); ok && len(ors) == 0 {
		delete(md, "ownerReferences")
	}
	for _, f := range []string{"labels", "annotations"} {
		if m, ok := md[f].(map[string]any); ok && len(m) == 0 {
			delete(md, f)
		}
	}
	next["apiVersion"] = cur["apiVersion"]
	next["kind"] = cur["kind"]
	if hasStatusSub(w, gvk.GroupKind()) {
		if sub == "status" {
			st, ok := next["status"]
			mf := md["managedFields"]
			n2 := runtime.DeepCopyJSON(cur)
			if ok {
				n2["status"] = st
			} else {
				delete(n2, "status")
			}
			if mf != nil {
				n2["metadata"].(map[string]any)["managedFields"] = mf
			}
			next = n2
		} else {
			if st, ok := cur["status"]; ok {
				next["status"] = st
			} else {
				delete(next, "status")
			}
		}
	}
	if err := w.validate(gvk, next); err != nil {
		return nil, err
	}
	// generation moves when anything but metadata and status changed
	if tracksGeneration(gvk.Group) && !reflect.DeepEqual(withoutMetaStatus(cur), withoutMetaStatus(next)) {
		g, _, _ := unstructured.NestedInt64(cur, "metadata", "generation")
		unstructured.SetNestedField(next, g+1, "metadata", "generation") //nolint:errcheck
	}
	// removing the last finalizer of a terminating object deletes it
	if Terminating(next) {
		fs, _, _ := unstructured.NestedSlice(next, "metadata", "finalizers")
		if len(fs) == 0 {
			return nil, nil
		}
	}
	return next, nil
}

func withoutMetaStatus(o map[string]any) map[string]any {
	cp := make(map[string]any, len(o))
	for k, v := range o {
		if k == "metadata" || k == "status" {
			continue
		}
		cp[k] = v
	}
	return cp
}

func (w *World) prepareCreate(gvk schema.GroupVersionKind, next map[string]any) (map[string]any, error) {
	next = dropNulls(next).(map[string]any)
	md, _ := next["metadata"].(map[string]any)
	if md == nil {
		md = map[string]any{}
		next["metadata"] = md
	}
	if str(next, "metadata", "name") == "" {
		if gn := str(next, "metadata", "generateName"); gn != "" {
			md["name"] = gn + w.suffix()
		}
	}
	if rv := str(next, "metadata", "resourceVersion"); rv != "" {
		return nil, kerrors.NewBadRequest("resourceVersion should not be set on objects to be created")
	}
	delete(md, "deletionTimestamp")
	delete(md, "deletionGracePeriodSeconds")
	for _, f := range []string{"labels", "annotations"} {
		if m, ok := md[f].(map[string]any); ok && len(m) == 0 {
			delete(md, f)
		}
	}
	if fs, ok := md["finalizers"].([]any); ok && len(fs) == 0 {
		delete(md, "finalizers")
	}
	if ors, ok := md["ownerReferences"].([]any); ok && len(ors) == 0 {
		delete(md, "ownerReferences")
	}
	if err := w.validate(gvk, next); err != nil {
		return nil, err
	}
	w.uidN++
	md["uid"] = fmt.Sprintf("uid-%04d", w.uidN)
	md["creationTimestamp"] = w.now()
	if tracksGeneration(gvk.Group) {
		md["generation"] = int64(1)
	} else {
		delete(md, "generation")
	}
	if hasStatusSub(w, gvk.GroupKind()) {
		delete(next, "status")
	}
	return next, nil
}

// tracksGeneration: the API server maintains metadata.generation for custom resources and for
// built-in kinds with a spec/status split; core objects (Secret, ConfigMap, ServiceAccount,
// Namespace ...) and RBAC objects have no generation (it stays 0 whatever changes).
func tracksGeneration(group string) bool {
	return group != "" && group != "rbac.authorization.k8s.io"
}

const suffixChars = "bcdfghjklmnpqrstvwxz2456789"

func (w *World) suffix() string {
	b := make([]byte, 5)
	for i := range b {
		b[i] = suffixChars[w.rng.IntN(len(suffixChars))]
	}
	return string(b)
}

func isDryRun(dr []string) bool {
	for _, d := range dr {
		if d == metav1.DryRunAll {
			return true
		}
	}
	return false
}

// Create implements client.Writer.
func (c *Client) Create(_ context.Context, obj client.Object, opts ...client.CreateOption) error {
	co := client.CreateOptions{}
	co.ApplyOptions(opts)
	m, gvk, err := c.toJSON(obj)
	if err != nil {
		return err
	}
	k := KeyOf(m)
	w := c.w
	mgr := c.Manager
	if co.FieldManager != "" {
		mgr = co.FieldManager
	}
	req := &writeReq{verb: "create", gvk: gvk, key: k, dryRun: isDryRun(co.DryRun), body: m}
	req.compute = func(_ map[string]any) (map[string]any, error) {
		next, err := w.prepareCreate(gvk, runtime.DeepCopyJSON(m))
		if err != nil {
			return nil, err
		}
		nk := KeyOf(next)
		if ki, ok := w.kindInfo(nk.GK()); ok && !ki.Namespaced {
			nk.Namespace = ""
		}
		req.key = nk
		if _, exists := w.objs[nk]; exists {
			return nil, kerrors.NewAlreadyExists(w.gr(nk), nk.Name)
		}
		return w.trackUpdate(gvk, "", nil, next, mgr)
	}
	res, err := c.do(req)
	if res != nil {
		if e := c.fromJSON(res, gvk, obj); e != nil {
			return e
		}
	}
	return err
}

// Update implements client.Writer.
func (c *Client) Update(_ context.Context, obj client.Object, opts ...client.UpdateOption) error {
	return c.update("", obj, opts)
}

func (c *Client) update(sub string, obj client.Object, opts []client.UpdateOption) error {
	uo := client.UpdateOptions{}
	uo.ApplyOptions(opts)
	m, gvk, err := c.toJSON(obj)
	if err != nil {
		return err
	}
	k := KeyOf(m)
	w := c.w
	mgr := c.Manager
	if uo.FieldManager != "" {
		mgr = uo.FieldManager
	}
	req := &writeReq{verb: "update", gvk: gvk, key: k, sub: sub, dryRun: isDryRun(uo.DryRun), body: m}
	req.compute = func(cur map[string]any) (map[string]any, error) {
		if cur == nil {
			return nil, kerrors.NewNotFound(w.gr(req.key), k.Name)
		}
		if w.RequireRV && str(m, "metadata", "resourceVersion") == "" && strings.Contains(gvk.Group, ".") && !strings.HasSuffix(gvk.Group, ".k8s.io") {
			return nil, invalid(gvk, k.Name, "metadata.resourceVersion", "Invalid value: 0x0: must be specified for an update")
		}
		next, err := w.prepareUpdate(gvk, sub, cur, runtime.DeepCopyJSON(m))
		if err != nil || next == nil {
			return next, err
		}
		return w.trackUpdate(gvk, sub, cur, next, mgr)
	}
	res, err := c.do(req)
	if res != nil {
		if e := c.fromJSON(res, gvk, obj); e != nil {
			return e
		}
	}
	return err
}

// Patch implements client.Writer.
func (c *Client) Patch(_ context.Context, obj client.Object, p client.Patch, opts ...client.PatchOption) error {
	return c.patch("", obj, p, opts)
}

func (c *Client) patch(sub string, obj client.Object, p client.Patch, opts []client.PatchOption) error {
	po := client.PatchOptions{}
	po.ApplyOptions(opts)
	m, gvk, err := c.toJSON(obj)
	if err != nil {
		return err
	}
	k := KeyOf(m)
	data, err := p.Data(obj)
	if err != nil {
		return err
	}
	w := c.w
	force := po.Force != nil && *po.Force
	mgr := c.Manager
	if po.FieldManager != "" {
		mgr = po.FieldManager
	}
	req := &writeReq{verb: "patch", gvk: gvk, key: k, sub: sub, patchType: string(p.Type()), force: force, dryRun: isDryRun(po.DryRun)}
	if p.Type() == types.ApplyPatchType {
		req.fieldOwner = po.FieldManager
	}
	var body map[string]any
	if p.Type() != types.JSONPatchType {
		_ = kjson.Unmarshal(data, &body)
		req.body = body
	} else {
		req.body = map[string]any{"jsonpatch": string(data)}
	}
	req.compute = func(cur map[string]any) (map[string]any, error) {
		switch p.Type() {
		case types.ApplyPatchType:
			if po.FieldManager == "" {
				return nil, kerrors.NewBadRequest("PatchOptions.meta.k8s.io: fieldManager is required for apply patch")
			}
			return w.apply(gvk, sub, req.key, cur, data, po.FieldManager, force)
		case types.MergePatchType, types.StrategicMergePatchType, types.JSONPatchType:
			if cur == nil {
				return nil, kerrors.NewNotFound(w.gr(req.key), k.Name)
			}
			// patches are applied to the object as served at the request's version
			curAt := runtime.DeepCopyJSON(cur)
			curAt["apiVersion"] = gvk.GroupVersion().String()
			cb, _ := json.Marshal(curAt)
			var nb []byte
			var perr error
			if p.Type() == types.JSONPatchType {
				jp, derr := jsonpatch.DecodePatch(data)
				if derr != nil {
					return nil, kerrors.NewBadRequest(derr.Error())
				}
				nb, perr = jp.Apply(cb)
			} else {
				nb, perr = jsonpatch.MergePatch(cb, data)
			}
			if perr != nil {
				return nil, kerrors.NewInvalid(gvk.GroupKind(), k.Name, field.ErrorList{field.Invalid(field.NewPath("patch"), "", perr.Error())})
			}
			var next map[string]any
			if err := kjson.Unmarshal(nb, &next); err != nil {
				return nil, kerrors.NewBadRequest(err.Error())
			}
			next, err := w.prepareUpdate(gvk, sub, cur, next)
			if err != nil || next == nil {
				return next, err
			}
			return w.trackUpdate(gvk, sub, cur, next, mgr)
		}
		return nil, kerrors.NewBadRequest("sim: unsupported patch type " + string(p.Type()))
	}
	res, err := c.do(req)
	if res != nil {
		if e := c.fromJSON(res, gvk, obj); e != nil {
			return e
		}
	}
	return err
}

// Delete implements client.Writer.
func (c *Client) Delete(_ context.Context, obj client.Object, opts ...client.DeleteOption) error {
	do := client.DeleteOptions{}
	do.ApplyOptions(opts)
	m, gvk, err := c.toJSON(obj)
	if err != nil {
		return err
	}
	_, err = c.delete(gvk, KeyOf(m), &do)
	return err
}

func (c *Client) delete(gvk schema.GroupVersionKind, k Key, do *client.DeleteOptions, collection ...bool) (map[string]any, error) {
	w := c.w
	req := &writeReq{verb: "delete", gvk: gvk, key: k, dryRun: isDryRun(do.DryRun), delOpts: do, collection: len(collection) > 0 && collection[0]}
	if do.PropagationPolicy != nil {
		req.patchType = string(*do.PropagationPolicy)
	}
	req.compute = func(cur map[string]any) (map[string]any, error) {
		if cur == nil {
			return nil, kerrors.NewNotFound(w.gr(req.key), k.Name)
		}
		if pc := do.Preconditions; pc != nil {
			if pc.UID != nil && string(*pc.UID) != str(cur, "metadata", "uid") {
				return nil, kerrors.NewConflict(w.gr(req.key), k.Name, fmt.Errorf("Precondition failed: UID in precondition: %v, UID in object meta: %v", *pc.UID, str(cur, "metadata", "uid")))
			}
			if pc.ResourceVersion != nil && *pc.ResourceVersion != str(cur, "metadata", "resourceVersion") {
				return nil, kerrors.NewConflict(w.gr(req.key), k.Name, fmt.Errorf("Precondition failed: ResourceVersion"))
			}
		}
		next := runtime.DeepCopyJSON(cur)
		fs, _, _ := unstructured.NestedStringSlice(next, "metadata", "finalizers")
		// A CustomResourceDefinition with instances is not removed at once: the API server's
		// cleanup finalizer keeps it until every instance is gone (see gc.go crd-cleanup).
		if k.Kind == "CustomResourceDefinition" && k.Group == "apiextensions.k8s.io" && len(w.instancesOf(cur)) > 0 {
			has := false
			for _, f := range fs {
				if f == CRDCleanupFinalizer {
					has = true
				}
			}
			if !has {
				fs = append(fs, CRDCleanupFinalizer)
				unstructured.SetNestedStringSlice(next, fs, "metadata", "finalizers") //nolint:errcheck
			}
		}
		if do.PropagationPolicy != nil {
			want := ""
			switch *do.PropagationPolicy {
			case metav1.DeletePropagationForeground:
				want = metav1.FinalizerDeleteDependents
			case metav1.DeletePropagationOrphan:
				want = metav1.FinalizerOrphanDependents
			}
			has := false
			for _, f := range fs {
				if f == want {
					has = true
				}
			}
			if want != "" && !has {
				fs = append(fs, want)
				unstructured.SetNestedStringSlice(next, fs, "metadata", "finalizers") //nolint:errcheck
			}
		}
		if len(fs) == 0 {
			return nil, nil
		}
		if !Terminating(next) {
			unstructured.SetNestedField(next, w.now(), "metadata", "deletionTimestamp") //nolint:errcheck
		}
		return next, nil
	}
	return c.do(req)
}

// DeleteAllOf implements client.Writer: one delete per matching object.
func (c *Client) DeleteAllOf(ctx context.Context, obj client.Object, opts ...client.DeleteAllOfOption) error {
	dao := client.DeleteAllOfOptions{}
	dao.ApplyOptions(opts)
	gvk, err := c.gvk(obj)
	if err != nil {
		return err
	}
	c.w.mu.Lock()
	gone := c.w.unserved[gvk.GroupKind()]
	c.w.mu.Unlock()
	if gone {
		return &meta.NoKindMatchError{GroupKind: gvk.GroupKind(), SearchedVersions: []string{gvk.Version}}
	}
	var keys []Key
	c.w.Read(func(v *View) {
		for _, k := range v.Keys() {
			if k.GK() != gvk.GroupKind() {
				continue
			}
			if dao.Namespace != "" && k.Namespace != dao.Namespace {
				continue
			}
			o := v.Get(k)
			if dao.LabelSelector != nil {
				ls, _, _ := unstructured.NestedStringMap(o, "metadata", "labels")
				if !dao.LabelSelector.Matches(labels.Set(ls)) {
					continue
				}
			}
			keys = append(keys, k)
		}
	})
	for _, k := range keys {
		do := dao.DeleteOptions
		if _, err := c.delete(gvk, k, &do, true); err != nil && !kerrors.IsNotFound(err) {
			return err
		}
	}
	return nil
}

// Status implements client.StatusClient.
func (c *Client) Status() client.SubResourceWriter { return &subWriter{c: c, sub: "status"} }

// SubResource implements client.SubResourceClientConstructor.
func (c *Client) SubResource(sub string) client.SubResourceClient { return &subWriter{c: c, sub: sub} }

type subWriter struct {
	c   *Client
	sub string
}

func (s *subWriter) Get(context.Context, client.Object, client.Object, ...client.SubResourceGetOption) error {
	return errors.New("sim: subresource get not supported")
}

func (s *subWriter) Create(context.Context, client.Object, client.Object, ...client.SubResourceCreateOption) error {
	return errors.New("sim: subresource create not supported")
}

func (s *subWriter) Update(_ context.Context, obj client.Object, opts ...client.SubResourceUpdateOption) error {
	uo := client.SubResourceUpdateOptions{}
	uo.ApplyOptions(opts)
	return s.c.update(s.sub, obj, []client.UpdateOption{&uo.UpdateOptions})
}

func (s *subWriter) Patch(_ context.Context, obj client.Object, p client.Patch, opts ...client.SubResourcePatchOption) error {
	po := client.SubResourcePatchOptions{}
	po.ApplyOptions(opts)
	return s.c.patch(s.sub, obj, p, []client.PatchOption{&po.PatchOptions})
}
