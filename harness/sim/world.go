// Package sim is a simulated Kubernetes API server: an in-memory object store with the
// apiserver behaviours the monitored properties lean on (optimistic concurrency, status
// subresource, finalizers, owner-reference validation, server-side apply through the real
// managedfields library, merge/JSON patches, dry-run, garbage collection as an explicit
// actor), plus the instrumentation every behavioural monitor observes: a write log, a
// post-write hook, a fault injector and an actor scheduler.
package sim

import (
	"encoding/json"
	"fmt"
	"math/rand/v2"
	"sort"
	"strconv"
	"strings"
	"sync"
	"time"

	metav1 "k8s.io/apimachinery/pkg/apis/meta/v1"
	"k8s.io/apimachinery/pkg/apis/meta/v1/unstructured"
	"k8s.io/apimachinery/pkg/runtime"
	"k8s.io/apimachinery/pkg/runtime/schema"
	"k8s.io/apimachinery/pkg/util/managedfields"
	"sigs.k8s.io/controller-runtime/pkg/client"
)

// Key identifies a stored object. The API version is deliberately not part of it: all served
// versions of a kind address the same object, as with a real server.
type Key struct{ Group, Kind, Namespace, Name string }

func (k Key) String() string {
	return k.Group + "/" + k.Kind + "/" + k.Namespace + "/" + k.Name
}

// GK returns the group-kind of the key.
func (k Key) GK() schema.GroupKind { return schema.GroupKind{Group: k.Group, Kind: k.Kind} }

// Outcome of an injected fault.
type Outcome int

// Fault outcomes.
const (
	OK          Outcome = iota
	Conflict            // 409, request not applied
	ServerError         // 500, request not applied
	Timeout             // 504, request not applied
	CrashBefore         // the actor dies before the request takes effect
	CrashAfter          // the request takes effect, then the actor dies before seeing the reply
	ErrorAfter          // the request takes effect but a 504 is returned
	// Outcomes below are not part of AllFaults; checks opt in to them.
	NotServed   // the kind is momentarily not discoverable: NoKindMatchError, request not applied
	Unavailable // 503, request not applied
	Missing     // 404 on the request itself (e.g. the API group is being re-registered), request not applied
	Expired     // 410 Gone / ResourceExpired (a continue token outlived the compaction window), request not applied
)

// EnumFaults is what the fault enumerations iterate over: the six classic outcomes plus two
// further classes of "request not applied" errors that code may single out (a kind that is
// momentarily not served, a 503).
var EnumFaults = []Outcome{Conflict, ServerError, Timeout, CrashBefore, CrashAfter, ErrorAfter, NotServed, Unavailable}

// DiscoveryFaults are the outcomes of an API server whose discovery / aggregation layer hiccups.
var DiscoveryFaults = []Outcome{NotServed, Unavailable, Missing}

// AllFaults lists the six injectable outcomes.
var AllFaults = []Outcome{Conflict, ServerError, Timeout, CrashBefore, CrashAfter, ErrorAfter}

func (o Outcome) String() string {
	return [...]string{"ok", "conflict", "servererror", "timeout", "crashbefore", "crashafter", "errorafter", "notserved", "unavailable", "missing", "expired"}[o]
}

// Crash is the sentinel panic that kills an actor at an API call.
type Crash struct {
	Actor string
	Call  int
}

// Event is one entry of the trace: an API call (or a harness-injected marker).
type Event struct {
	Seq        int            `json:"seq"`
	Actor      string         `json:"actor"`
	Call       int            `json:"call"`
	Verb       string         `json:"verb"` // get list create update patch delete deleteallof mark
	Key        Key            `json:"key"`
	Version    string         `json:"version,omitempty"`
	Sub        string         `json:"sub,omitempty"`
	PatchType  string         `json:"patchType,omitempty"`
	FieldOwner string         `json:"fieldOwner,omitempty"`
	Force      bool           `json:"force,omitempty"`
	DryRun     bool           `json:"dryRun,omitempty"`
	Injected   string         `json:"injected,omitempty"`
	Err        string         `json:"err,omitempty"`
	Reason     string         `json:"reason,omitempty"`
	Changed    bool           `json:"changed,omitempty"` // the store changed (effective write)
	Removed    bool           `json:"removed,omitempty"` // the object left the store
	RVBefore   string         `json:"rvBefore,omitempty"`
	RVAfter    string         `json:"rvAfter,omitempty"`
	Note       string         `json:"note,omitempty"`
	Before     map[string]any `json:"-"`
	After      map[string]any `json:"-"`
	Body       map[string]any `json:"-"`
}

// Short renders the event on one line for witnesses.
func (e *Event) Short() string {
	s := fmt.Sprintf("#%d %s[%d] %s %s", e.Seq, e.Actor, e.Call, e.Verb, e.Key)
	if e.Sub != "" {
		s += "/" + e.Sub
	}
	if e.PatchType != "" {
		s += " (" + e.PatchType + ")"
	}
	if e.FieldOwner != "" {
		s += " owner=" + e.FieldOwner
	}
	if e.DryRun {
		s += " dry-run"
	}
	if e.Injected != "" {
		s += " INJECT=" + e.Injected
	}
	if e.Err != "" {
		s += " ERR=" + e.Reason
	}
	if e.Changed {
		s += " changed rv " + e.RVBefore + "->" + e.RVAfter
	}
	if e.Removed {
		s += " removed"
	}
	if e.Note != "" {
		s += " " + e.Note
	}
	return s
}

// IsWrite reports whether the event is a mutating verb (whether or not it took effect).
func (e *Event) IsWrite() bool {
	switch e.Verb {
	case "create", "update", "patch", "delete", "deleteallof":
		return true
	}
	return false
}

type version struct {
	rv  int64
	obj map[string]any // nil = deleted
}

// AdmitRequest is handed to admission functions.
type AdmitRequest struct {
	Actor     string
	Operation string // CREATE UPDATE DELETE
	Key       Key
	Version   string
	Sub       string
	DryRun    bool
	Old       map[string]any
	New       map[string]any
	Options   any
	// Collection: the request is one element of a deletecollection request (DeleteAllOf): the API
	// server runs admission once per object with oldObject set and an empty request name
	Collection bool
}

// AdmitFunc rejects a request by returning an error (it is returned to the caller as is).
// It runs with the world unlocked for reads through w.View().
type AdmitFunc func(w *World, req *AdmitRequest) error

// KindInfo configures how the server treats a kind.
type KindInfo struct {
	Namespaced bool
	NoStatus   bool // kind has no status subresource
	Plural     string
}

// World is one simulated cluster.
type World struct {
	mu     sync.Mutex
	Scheme *runtime.Scheme
	// actorLag: lagging-reader functions applied to clients created for an actor
	actorLag map[string]func(schema.GroupKind) (int64, bool)

	objs  map[Key]map[string]any
	hist  map[Key][]version
	rv    int64
	uidN  int
	clock int64
	seq   int
	log   []Event
	hooks []func(v *View, ev *Event)
	kinds map[schema.GroupKind]KindInfo
	idx   map[schema.GroupKind]map[string]client.IndexerFunc
	admit []AdmitFunc
	rng   *rand.Rand
	fms   map[string]*managedfields.FieldManager
	sched *Scheduler
	// kinds whose CRD was deleted: requests for them fail like an unknown kind
	unserved map[schema.GroupKind]bool

	// KeepBodies makes the trace keep before/after copies of objects (needed by most monitors).
	KeepBodies bool
	// PageCap, when > 0, caps the page size of Lists that ask for pagination (Limit > 0): a
	// scaling device that lets a workload with a handful of objects exercise the paths a client
	// takes with more objects than its page limit.
	PageCap int
	// RequireRV: an Update (PUT) of a custom resource - a kind of a group that is not built into
	// the API server - must carry metadata.resourceVersion, as the API server demands for custom
	// resources (their strategy does not allow unconditional updates). Off by default: most checks
	// were written against the permissive behaviour; a check opts in where it matters.
	RequireRV bool
}

// NewWorld creates an empty cluster. The PRNG only drives generateName suffixes.
func NewWorld(scheme *runtime.Scheme, seed uint64) *World {
	w := &World{
		Scheme:     scheme,
		objs:       map[Key]map[string]any{},
		hist:       map[Key][]version{},
		kinds:      map[schema.GroupKind]KindInfo{},
		idx:        map[schema.GroupKind]map[string]client.IndexerFunc{},
		rng:        rand.New(rand.NewPCG(seed, 0x5eed)),
		fms:        map[string]*managedfields.FieldManager{},
		unserved:   map[schema.GroupKind]bool{},
		KeepBodies: true,
		rv:         100,
	}
	for gk, ki := range builtinKinds {
		w.kinds[gk] = ki
	}
	return w
}

var builtinKinds = map[schema.GroupKind]KindInfo{
	{Group: "", Kind: "Secret"}:                                                     {Namespaced: true, NoStatus: true},
	{Group: "", Kind: "ConfigMap"}:                                                  {Namespaced: true, NoStatus: true},
	{Group: "", Kind: "ServiceAccount"}:                                             {Namespaced: true, NoStatus: true},
	{Group: "", Kind: "Service"}:                                                    {Namespaced: true},
	{Group: "", Kind: "Namespace"}:                                                  {},
	{Group: "", Kind: "Event"}:                                                      {Namespaced: true, NoStatus: true},
	{Group: "apps", Kind: "Deployment"}:                                             {Namespaced: true},
	{Group: "coordination.k8s.io", Kind: "Lease"}:                                   {Namespaced: true, NoStatus: true},
	{Group: "rbac.authorization.k8s.io", Kind: "ClusterRole"}:                       {NoStatus: true},
	{Group: "rbac.authorization.k8s.io", Kind: "ClusterRoleBinding"}:                {NoStatus: true},
	{Group: "rbac.authorization.k8s.io", Kind: "Role"}:                              {Namespaced: true, NoStatus: true},
	{Group: "rbac.authorization.k8s.io", Kind: "RoleBinding"}:                       {Namespaced: true, NoStatus: true},
	{Group: "apiextensions.k8s.io", Kind: "CustomResourceDefinition"}:               {},
	{Group: "admissionregistration.k8s.io", Kind: "ValidatingWebhookConfiguration"}: {NoStatus: true},
	{Group: "admissionregistration.k8s.io", Kind: "MutatingWebhookConfiguration"}:   {NoStatus: true},
}

// SetKind configures a kind (scope, status subresource).
func (w *World) SetKind(gk schema.GroupKind, ki KindInfo) {
	w.mu.Lock()
	defer w.mu.Unlock()
	w.kinds[gk] = ki
}

// kindInfo resolves how a kind is served: explicit configuration, else a stored CRD, else
// cluster scoped with a status subresource (every Crossplane CRD enables it).
func (w *World) kindInfo(gk schema.GroupKind) (KindInfo, bool) {
	if ki, ok := w.kinds[gk]; ok {
		return ki, true
	}
	for k, o := range w.objs {
		if k.Kind != "CustomResourceDefinition" || k.Group != "apiextensions.k8s.io" {
			continue
		}
		g, _, _ := unstructured.NestedString(o, "spec", "group")
		kd, _, _ := unstructured.NestedString(o, "spec", "names", "kind")
		if g == gk.Group && kd == gk.Kind {
			sc, _, _ := unstructured.NestedString(o, "spec", "scope")
			pl, _, _ := unstructured.NestedString(o, "spec", "names", "plural")
			return KindInfo{Namespaced: sc == "Namespaced", Plural: pl}, true
		}
	}
	return KindInfo{}, false
}

// AddHook registers a monitor run synchronously, under the store lock, after every event.
func (w *World) AddHook(h func(v *View, ev *Event)) {
	w.mu.Lock()
	defer w.mu.Unlock()
	w.hooks = append(w.hooks, h)
}

// AddAdmission registers an admission function (validating webhook, scripted rejection).
func (w *World) AddAdmission(a AdmitFunc) {
	w.mu.Lock()
	defer w.mu.Unlock()
	w.admit = append(w.admit, a)
}

// IndexField registers an index function, as controller-runtime's FieldIndexer does.
func (w *World) IndexField(gk schema.GroupKind, field string, fn client.IndexerFunc) {
	w.mu.Lock()
	defer w.mu.Unlock()
	if w.idx[gk] == nil {
		w.idx[gk] = map[string]client.IndexerFunc{}
	}
	w.idx[gk][field] = fn
}

// View gives lock-free read access to the store; valid inside hooks and, through
// World.Read, from anywhere.
type View struct{ w *World }

// Read runs f with a consistent view of the store.
func (w *World) Read(f func(v *View)) {
	w.mu.Lock()
	defer w.mu.Unlock()
	f(&View{w})
}

// Get returns the stored object (not a copy: do not modify) or nil.
func (v *View) Get(k Key) map[string]any { return v.w.objs[k] }

// Keys returns all keys, sorted.
func (v *View) Keys() []Key {
	ks := make([]Key, 0, len(v.w.objs))
	for k := range v.w.objs {
		ks = append(ks, k)
	}
	sort.Slice(ks, func(i, j int) bool { return ks[i].String() < ks[j].String() })
	return ks
}

// List returns the stored objects of a kind (all namespaces), sorted by key.
func (v *View) List(gk schema.GroupKind) []map[string]any {
	var out []map[string]any
	for _, k := range v.Keys() {
		if k.GK() == gk {
			out = append(out, v.w.objs[k])
		}
	}
	return out
}

// All returns every stored object sorted by key.
func (v *View) All() []map[string]any {
	var out []map[string]any
	for _, k := range v.Keys() {
		out = append(out, v.w.objs[k])
	}
	return out
}

// RV returns the global resource version counter.
func (v *View) RV() int64 { return v.w.rv }

// Snapshot returns a deep copy of the whole store keyed by Key.String().
func (w *World) Snapshot() map[string]map[string]any {
	w.mu.Lock()
	defer w.mu.Unlock()
	out := make(map[string]map[string]any, len(w.objs))
	for k, o := range w.objs {
		out[k.String()] = runtime.DeepCopyJSON(o)
	}
	return out
}

// GetObj returns a deep copy of one stored object, or nil.
func (w *World) GetObj(k Key) map[string]any {
	w.mu.Lock()
	defer w.mu.Unlock()
	if o, ok := w.objs[k]; ok {
		return runtime.DeepCopyJSON(o)
	}
	return nil
}

// ListObjs returns deep copies of every object of a kind.
func (w *World) ListObjs(gk schema.GroupKind) []map[string]any {
	w.mu.Lock()
	defer w.mu.Unlock()
	v := &View{w}
	var out []map[string]any
	for _, o := range v.List(gk) {
		out = append(out, runtime.DeepCopyJSON(o))
	}
	return out
}

// Log returns a copy of the trace from index from on.
func (w *World) Log(from int) []Event {
	w.mu.Lock()
	defer w.mu.Unlock()
	if from > len(w.log) {
		from = len(w.log)
	}
	return append([]Event(nil), w.log[from:]...)
}

// LogLen returns the current trace length.
func (w *World) LogLen() int {
	w.mu.Lock()
	defer w.mu.Unlock()
	return len(w.log)
}

// Mark appends a harness marker (e.g. an engine Start/Stop call) to the trace.
func (w *World) Mark(actor, note string, key Key) {
	w.mu.Lock()
	defer w.mu.Unlock()
	ev := Event{Actor: actor, Verb: "mark", Key: key, Note: note}
	w.record(&ev)
}

func (w *World) record(ev *Event) {
	w.seq++
	ev.Seq = w.seq
	if !w.KeepBodies {
		ev.Before, ev.After, ev.Body = nil, nil, nil
	}
	w.log = append(w.log, *ev)
	if len(w.hooks) > 0 {
		v := &View{w}
		for _, h := range w.hooks {
			h(v, ev)
		}
	}
}

func (w *World) nextRV() string {
	w.rv++
	return strconv.FormatInt(w.rv, 10)
}

func (w *World) now() string {
	w.clock++
	return time.Unix(1700000000+w.clock, 0).UTC().Format(time.RFC3339)
}

func (w *World) put(k Key, o map[string]any) {
	if k.Kind == "CustomResourceDefinition" && k.Group == "apiextensions.k8s.io" {
		delete(w.unserved, schema.GroupKind{Group: str(o, "spec", "group"), Kind: str(o, "spec", "names", "kind")})
	}
	w.objs[k] = o
	w.hist[k] = append(w.hist[k], version{rv: w.rv, obj: o})
}

func (w *World) remove(k Key) {
	if o := w.objs[k]; o != nil && k.Kind == "CustomResourceDefinition" && k.Group == "apiextensions.k8s.io" {
		// the kind is no longer served: its instances (if any are left in storage) become
		// unreachable and nothing can be created until the CRD exists again
		w.unserved[schema.GroupKind{Group: str(o, "spec", "group"), Kind: str(o, "spec", "names", "kind")}] = true
	}
	delete(w.objs, k)
	w.rv++
	w.hist[k] = append(w.hist[k], version{rv: w.rv, obj: nil})
}

// at returns the object as of global resource version rv (for lagging readers).
// lagRV turns a lag into the resource version a lagging read is served at: behind >= 0 means
// that many writes ago, behind < 0 means frozen at the absolute resource version -behind (a
// cache that has not caught up with anything since).
func (w *World) lagRV(behind int64) int64 {
	if behind < 0 {
		return -behind
	}
	return w.rv - behind
}

// RV returns the store's current resource version.
func (w *World) RV() int64 {
	w.mu.Lock()
	defer w.mu.Unlock()
	return w.rv
}

func (w *World) at(k Key, rv int64) map[string]any {
	var cur map[string]any
	for _, v := range w.hist[k] {
		if v.rv > rv {
			break
		}
		cur = v.obj
	}
	return cur
}

// Seed stores an object directly (harness set-up: "a user created this"), through the same
// create path as a client so that metadata is populated.
func (w *World) Seed(actor string, obj map[string]any) error {
	c := w.Client(actor)
	u := &unstructured.Unstructured{Object: runtime.DeepCopyJSON(obj)}
	return c.Create(nil, u) //nolint:staticcheck // context unused by sim
}

// MustSeed is Seed that panics on error.
func (w *World) MustSeed(actor string, obj map[string]any) {
	if err := w.Seed(actor, obj); err != nil {
		panic(fmt.Sprintf("seed %v: %v", obj["metadata"], err))
	}
}

// SeedYAMLLike is a helper for tests: obj given as JSON text.
func (w *World) SeedJSON(actor, js string) error {
	var m map[string]any
	if err := json.Unmarshal([]byte(js), &m); err != nil {
		return err
	}
	return w.Seed(actor, m)
}

func gkOf(o map[string]any) (schema.GroupVersionKind, error) {
	av, _ := o["apiVersion"].(string)
	kd, _ := o["kind"].(string)
	if kd == "" {
		return schema.GroupVersionKind{}, fmt.Errorf("object has no kind")
	}
	gv, err := schema.ParseGroupVersion(av)
	if err != nil {
		return schema.GroupVersionKind{}, err
	}
	return gv.WithKind(kd), nil
}

// KeyOf computes the key of a JSON object.
func KeyOf(o map[string]any) Key {
	gvk, _ := gkOf(o)
	ns, _, _ := unstructured.NestedString(o, "metadata", "namespace")
	n, _, _ := unstructured.NestedString(o, "metadata", "name")
	return Key{Group: gvk.Group, Kind: gvk.Kind, Namespace: ns, Name: n}
}

func plural(kind string) string {
	l := strings.ToLower(kind)
	switch {
	case strings.HasSuffix(l, "s"):
		return l + "es"
	case strings.HasSuffix(l, "y"):
		return l[:len(l)-1] + "ies"
	}
	return l + "s"
}

func (w *World) gr(k Key) schema.GroupResource {
	if ki, ok := w.kindInfo(k.GK()); ok && ki.Plural != "" {
		return schema.GroupResource{Group: k.Group, Resource: ki.Plural}
	}
	return schema.GroupResource{Group: k.Group, Resource: plural(k.Kind)}
}

// controllerOf returns the controller owner reference of a JSON object, if any.
func ControllerOf(o map[string]any) map[string]any {
	refs, _, _ := unstructured.NestedSlice(o, "metadata", "ownerReferences")
	for _, r := range refs {
		m, ok := r.(map[string]any)
		if !ok {
			continue
		}
		if c, _ := m["controller"].(bool); c {
			return m
		}
	}
	return nil
}

// OwnerRefs returns the owner references of a JSON object.
func OwnerRefs(o map[string]any) []map[string]any {
	refs, _, _ := unstructured.NestedSlice(o, "metadata", "ownerReferences")
	var out []map[string]any
	for _, r := range refs {
		if m, ok := r.(map[string]any); ok {
			out = append(out, m)
		}
	}
	return out
}

// Meta helpers on JSON objects.
func str(o map[string]any, path ...string) string {
	s, _, _ := unstructured.NestedString(o, path...)
	return s
}

// Str reads a nested string.
func Str(o map[string]any, path ...string) string { return str(o, path...) }

// Terminating reports whether the object has a deletionTimestamp.
func Terminating(o map[string]any) bool { return str(o, "metadata", "deletionTimestamp") != "" }

// ToMeta decodes metadata for convenience.
func ToMeta(o map[string]any) metav1.ObjectMeta {
	var m metav1.ObjectMeta
	if md, ok := o["metadata"].(map[string]any); ok {
		_ = runtime.DefaultUnstructuredConverter.FromUnstructured(md, &m)
	}
	return m
}

// Clone returns an independent copy of the cluster state (objects, history, counters, kind
// configuration, indexes, admission functions). Hooks, trace and scheduler are not copied.
// Restore puts the stored objects (and their version history) back to what snap holds; snap is a
// Clone of w taken earlier. The trace keeps growing; resource versions continue from snap's.
func (w *World) Restore(snap *World) {
	snap.mu.Lock()
	defer snap.mu.Unlock()
	w.mu.Lock()
	defer w.mu.Unlock()
	w.objs = map[Key]map[string]any{}
	for k, o := range snap.objs {
		w.objs[k] = runtime.DeepCopyJSON(o)
	}
	w.hist = map[Key][]version{}
	for k, vs := range snap.hist {
		cp := make([]version, len(vs))
		for i, v := range vs {
			cp[i] = version{rv: v.rv}
			if v.obj != nil {
				cp[i].obj = runtime.DeepCopyJSON(v.obj)
			}
		}
		w.hist[k] = cp
	}
	w.rv, w.uidN, w.clock = snap.rv, snap.uidN, snap.clock
}

// Versions returns the resource versions at which the object was written (its version history,
// which clones keep), oldest first.
func (w *World) Versions(k Key) []int64 {
	w.mu.Lock()
	defer w.mu.Unlock()
	var out []int64
	for _, v := range w.hist[k] {
		out = append(out, v.rv)
	}
	return out
}

func (w *World) Clone() *World {
	w.mu.Lock()
	defer w.mu.Unlock()
	n := NewWorld(w.Scheme, w.rng.Uint64())
	n.rv, n.uidN, n.clock = w.rv, w.uidN, w.clock
	n.KeepBodies, n.PageCap, n.RequireRV = w.KeepBodies, w.PageCap, w.RequireRV
	for k, o := range w.objs {
		n.objs[k] = runtime.DeepCopyJSON(o)
	}
	for k, vs := range w.hist {
		cp := make([]version, len(vs))
		for i, v := range vs {
			cp[i] = version{rv: v.rv}
			if v.obj != nil {
				cp[i].obj = runtime.DeepCopyJSON(v.obj)
			}
		}
		n.hist[k] = cp
	}
	for gk, ki := range w.kinds {
		n.kinds[gk] = ki
	}
	for gk, m := range w.idx {
		n.idx[gk] = map[string]client.IndexerFunc{}
		for f, fn := range m {
			n.idx[gk][f] = fn
		}
	}
	n.admit = append(n.admit, w.admit...)
	for gk := range w.unserved {
		n.unserved[gk] = true
	}
	return n
}

// SeedFull stores an object including its status (create, then a status update when the kind
// has a status subresource and the object carries a status).
func (w *World) SeedFull(actor string, obj map[string]any) error {
	c := w.Client(actor)
	u := &unstructured.Unstructured{Object: runtime.DeepCopyJSON(obj)}
	st, has := obj["status"]
	if err := c.Create(nil, u); err != nil { //nolint:staticcheck // context unused by sim
		return err
	}
	if has {
		if _, still := u.Object["status"]; !still {
			u.Object["status"] = runtime.DeepCopyJSONValue(st)
			return c.Status().Update(nil, u) //nolint:staticcheck // context unused by sim
		}
	}
	return nil
}

// MustSeedFull is SeedFull that panics on error.
func (w *World) MustSeedFull(actor string, obj map[string]any) {
	if err := w.SeedFull(actor, obj); err != nil {
		panic(fmt.Sprintf("seed %v: %v", obj["metadata"], err))
	}
}
