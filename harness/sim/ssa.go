package sim

import (
	"fmt"

	kerrors "k8s.io/apimachinery/pkg/api/errors"
	"k8s.io/apimachinery/pkg/apis/meta/v1/unstructured"
	"k8s.io/apimachinery/pkg/runtime"
	"k8s.io/apimachinery/pkg/runtime/schema"
	"k8s.io/apimachinery/pkg/util/managedfields"
	"k8s.io/apimachinery/pkg/util/yaml"
	"sigs.k8s.io/structured-merge-diff/v4/typed"
	"sigs.k8s.io/structured-merge-diff/v4/value"
)

// The structured-merge-diff schema every kind is served with. Object metadata follows the
// Kubernetes OpenAPI: ownerReferences is a list-map keyed by uid (so two appliers merge their
// references, and a second controller reference becomes visible to validation), finalizers is
// a set, labels/annotations are granular maps. Everything else is deduced the way the
// apiserver does for schemaless fields: maps are granular, lists are atomic.
const smdSchema = `types:
- name: object
  map:
    fields:
    - name: apiVersion
      type:
        scalar: string
    - name: kind
      type:
        scalar: string
    - name: metadata
      type:
        namedType: objectMeta
    elementType:
      namedType: __untyped_deduced_
- name: objectMeta
  map:
    fields:
    - name: ownerReferences
      type:
        list:
          elementType:
            namedType: ownerReference
          elementRelationship: associative
          keys:
          - uid
    - name: finalizers
      type:
        list:
          elementType:
            scalar: string
          elementRelationship: associative
    - name: labels
      type:
        map:
          elementType:
            scalar: string
    - name: annotations
      type:
        map:
          elementType:
            scalar: string
    elementType:
      namedType: __untyped_deduced_
- name: ownerReference
  map:
    fields:
    - name: apiVersion
      type:
        scalar: string
    - name: kind
      type:
        scalar: string
    - name: name
      type:
        scalar: string
    - name: uid
      type:
        scalar: string
    - name: controller
      type:
        scalar: boolean
    - name: blockOwnerDeletion
      type:
        scalar: boolean
    elementRelationship: atomic
- name: __untyped_atomic_
  scalar: untyped
  list:
    elementType:
      namedType: __untyped_atomic_
    elementRelationship: atomic
  map:
    elementType:
      namedType: __untyped_atomic_
    elementRelationship: atomic
- name: __untyped_deduced_
  scalar: untyped
  list:
    elementType:
      namedType: __untyped_atomic_
    elementRelationship: atomic
  map:
    elementType:
      namedType: __untyped_deduced_
    elementRelationship: separable
`

var objectType = func() typed.ParseableType {
	p, err := typed.NewParser(typed.YAMLObject(smdSchema))
	if err != nil {
		panic(err)
	}
	return p.Type("object")
}()

type typeConv struct{}

func (typeConv) ObjectToTyped(obj runtime.Object, opts ...typed.ValidationOptions) (*typed.TypedValue, error) {
	u, ok := obj.(*unstructured.Unstructured)
	if !ok {
		return nil, fmt.Errorf("sim: only unstructured objects are field-managed, got %T", obj)
	}
	return objectType.FromUnstructured(u.UnstructuredContent(), opts...)
}

func (typeConv) TypedToObject(v *typed.TypedValue) (runtime.Object, error) {
	return valueToObject(v.AsValue())
}

func valueToObject(val value.Value) (runtime.Object, error) {
	switch o := val.Unstructured().(type) {
	case map[string]interface{}:
		return &unstructured.Unstructured{Object: o}, nil
	default:
		return nil, fmt.Errorf("sim: cannot convert %T to unstructured", o)
	}
}

// uConv is the trivial converter/defaulter/creater for unstructured objects: all versions of
// a kind share one representation (conversion strategy None).
type uConv struct{}

func (uConv) Convert(in, out, _ interface{}) error {
	i, ok1 := in.(*unstructured.Unstructured)
	o, ok2 := out.(*unstructured.Unstructured)
	if !ok1 || !ok2 {
		return fmt.Errorf("sim: cannot convert %T to %T", in, out)
	}
	o.Object = runtime.DeepCopyJSON(i.Object)
	return nil
}

func (uConv) ConvertToVersion(in runtime.Object, gv runtime.GroupVersioner) (runtime.Object, error) {
	u, ok := in.(*unstructured.Unstructured)
	if !ok {
		return in, nil
	}
	gvk := u.GroupVersionKind()
	if target, ok := gv.KindForGroupVersionKinds([]schema.GroupVersionKind{gvk}); ok && target.Version != "" && target != gvk {
		cp := u.DeepCopy()
		cp.SetGroupVersionKind(target)
		return cp, nil
	}
	return in, nil
}

func (uConv) ConvertFieldLabel(_ schema.GroupVersionKind, label, value string) (string, string, error) {
	return label, value, nil
}

func (uConv) Default(runtime.Object) {}

func (uConv) New(gvk schema.GroupVersionKind) (runtime.Object, error) {
	u := &unstructured.Unstructured{}
	u.SetGroupVersionKind(gvk)
	return u, nil
}

func (w *World) fieldManager(gvk schema.GroupVersionKind, sub string) (*managedfields.FieldManager, error) {
	k := gvk.String() + "|" + sub
	if fm, ok := w.fms[k]; ok {
		return fm, nil
	}
	fm, err := managedfields.NewDefaultCRDFieldManager(typeConv{}, uConv{}, uConv{}, uConv{}, gvk, gvk.GroupVersion(), sub, nil)
	if err != nil {
		return nil, err
	}
	w.fms[k] = fm
	return fm, nil
}

// trackUpdate records field ownership for a non-apply write (create/update/patch).
func (w *World) trackUpdate(gvk schema.GroupVersionKind, sub string, cur, next map[string]any, manager string) (map[string]any, error) {
	fm, err := w.fieldManager(gvk, sub)
	if err != nil {
		return nil, err
	}
	var live *unstructured.Unstructured
	if cur == nil {
		live = &unstructured.Unstructured{Object: map[string]any{}}
		live.SetGroupVersionKind(gvk)
	} else {
		live = &unstructured.Unstructured{Object: runtime.DeepCopyJSON(cur)}
		live.SetAPIVersion(gvk.GroupVersion().String())
	}
	nu := &unstructured.Unstructured{Object: next}
	nu.SetAPIVersion(gvk.GroupVersion().String())
	out, err := fm.Update(live, nu, manager)
	if err != nil {
		// the apiserver never fails a write because of managed fields bookkeeping
		return next, nil //nolint:nilerr
	}
	res := out.(*unstructured.Unstructured).Object
	if cur != nil {
		res["apiVersion"] = cur["apiVersion"]
	}
	return res, nil
}

// apply implements a server-side apply request.
func (w *World) apply(gvk schema.GroupVersionKind, sub string, k Key, cur map[string]any, data []byte, manager string, force bool) (map[string]any, error) {
	var applied map[string]any
	if err := yaml.Unmarshal(data, &applied); err != nil {
		return nil, kerrors.NewBadRequest("error decoding YAML: " + err.Error())
	}
	if mf, ok, _ := unstructured.NestedSlice(applied, "metadata", "managedFields"); ok && len(mf) > 0 {
		return nil, kerrors.NewBadRequest("metadata.managedFields must be nil")
	}
	unstructured.RemoveNestedField(applied, "metadata", "managedFields")
	if n := str(applied, "metadata", "name"); n != "" && n != k.Name {
		return nil, kerrors.NewBadRequest(fmt.Sprintf("name in URL (%s) does not match name in the body (%s)", k.Name, n))
	}
	applied["apiVersion"] = gvk.GroupVersion().String()
	applied["kind"] = gvk.Kind
	applied = dropNulls(applied).(map[string]any)

	statusSub := hasStatusSub(w, gvk.GroupKind())
	if statusSub {
		if sub == "status" {
			keep := map[string]any{"apiVersion": applied["apiVersion"], "kind": applied["kind"]}
			md := map[string]any{"name": k.Name}
			if k.Namespace != "" {
				md["namespace"] = k.Namespace
			}
			for _, f := range []string{"uid", "resourceVersion"} {
				if v := str(applied, "metadata", f); v != "" {
					md[f] = v
				}
			}
			keep["metadata"] = md
			if st, ok := applied["status"]; ok {
				keep["status"] = st
			}
			applied = keep
		} else {
			delete(applied, "status")
		}
	}

	fm, err := w.fieldManager(gvk, sub)
	if err != nil {
		return nil, err
	}
	creating := cur == nil
	if creating && sub != "" {
		return nil, kerrors.NewNotFound(w.gr(k), k.Name)
	}
	var live *unstructured.Unstructured
	if creating {
		live = &unstructured.Unstructured{Object: map[string]any{}}
		live.SetGroupVersionKind(gvk)
	} else {
		if u := str(applied, "metadata", "uid"); u != "" && u != str(cur, "metadata", "uid") {
			return nil, kerrors.NewConflict(w.gr(k), k.Name, fmt.Errorf("Precondition failed: UID in precondition: %s, UID in object meta: %s", u, str(cur, "metadata", "uid")))
		}
		if rv := str(applied, "metadata", "resourceVersion"); rv != "" && rv != str(cur, "metadata", "resourceVersion") {
			return nil, kerrors.NewConflict(w.gr(k), k.Name, fmt.Errorf("the object has been modified; please apply your changes to the latest version and try again"))
		}
		live = &unstructured.Unstructured{Object: runtime.DeepCopyJSON(cur)}
		live.SetAPIVersion(gvk.GroupVersion().String())
	}
	// uid / resourceVersion are preconditions, not applied configuration
	unstructured.RemoveNestedField(applied, "metadata", "resourceVersion")
	if creating {
		unstructured.RemoveNestedField(applied, "metadata", "uid")
	}
	out, err := fm.Apply(live, &unstructured.Unstructured{Object: applied}, manager, force)
	if err != nil {
		if kerrors.IsConflict(err) || kerrors.IsBadRequest(err) || kerrors.IsInvalid(err) {
			return nil, err
		}
		return nil, kerrors.NewBadRequest(err.Error())
	}
	merged := out.(*unstructured.Unstructured).Object
	if creating {
		next, err := w.prepareCreate(gvk, merged)
		if err != nil {
			return nil, err
		}
		return next, nil
	}
	next, err := w.prepareUpdate(gvk, sub, cur, merged)
	if err != nil || next == nil {
		return next, err
	}
	return next, nil
}
