//go:build verif

// C18: the RBAC manager grants a provider no permission beyond what is allowed.
package main

import (
	"context"
	"fmt"
	"math/rand/v2"
	"runtime"
	"sort"
	"sync"

	"github.com/crossplane/crossplane/verifh/kit"
)

var ctx = context.Background()

type viol struct {
	key, what string
	witness   any
}

// result of one case; merged into the Ctx in case-index order so that the evidence (first
// witness per key, samples) does not depend on goroutine scheduling.
type result struct {
	fp     string
	nt     bool
	counts map[string]int64
	viols  []viol
	sample any
}

func newResult() *result { return &result{counts: map[string]int64{}} }

func (r *result) count(k string, n int) { r.counts[k] += int64(n) }
func (r *result) violate(key, what string, witness any) {
	for _, v := range r.viols {
		if v.key == key {
			return
		}
	}
	r.viols = append(r.viols, viol{key, what, witness})
}

// maxima are merged by max instead of sum.
var maxCounters = map[string]bool{"p1_universe_max": true, "p2_universe_max": true}

type runner struct {
	c       *kit.Ctx
	samples map[string]int
	maxes   map[string]int64
}

// run executes n independent cases of a stream in parallel chunks.
func (rn *runner) run(stream string, n, perStreamSamples int, f func(i int, rng *rand.Rand) *result) {
	c := rn.c
	const chunk = 2048
	workers := runtime.GOMAXPROCS(0)
	for lo := 0; lo < n; lo += chunk {
		hi := lo + chunk
		if hi > n {
			hi = n
		}
		res := make([]*result, hi-lo)
		var wg sync.WaitGroup
		next := make(chan int, hi-lo)
		for i := lo; i < hi; i++ {
			next <- i
		}
		close(next)
		for w := 0; w < workers; w++ {
			wg.Add(1)
			go func() {
				defer wg.Done()
				for i := range next {
					name := fmt.Sprintf("%s/%d", stream, i)
					if !c.Want(name) {
						continue
					}
					var r *result
					if err := kit.Try(func() { r = f(i, c.Rng(stream, i)) }); err != nil {
						r = newResult()
						r.count("harness_panics", 1)
						fmt.Printf("harness panic in %s: %v\n", name, err)
					}
					res[i-lo] = r
				}
			}()
		}
		wg.Wait()
		for k, r := range res {
			if r == nil {
				continue
			}
			name := fmt.Sprintf("%s/%d", stream, lo+k)
			c.Eval(r.fp, r.nt)
			keys := make([]string, 0, len(r.counts))
			for ck := range r.counts {
				keys = append(keys, ck)
			}
			sort.Strings(keys)
			for _, ck := range keys {
				if maxCounters[ck] {
					if r.counts[ck] > rn.maxes[ck] {
						rn.maxes[ck] = r.counts[ck]
					}
					continue
				}
				c.Count(ck, r.counts[ck])
			}
			for _, v := range r.viols {
				c.Violate(v.key, name, v.what, v.witness)
			}
			if r.sample != nil && rn.samples[stream] < perStreamSamples {
				rn.samples[stream]++
				c.Sample(map[string]any{"case": name, "data": r.sample})
			}
		}
	}
}

func main() {
	c := kit.New("C18", "exploration with per-pair exhaustive small-model check")
	c.Rule = "part 1: (allow-list, request-list) pairs of rbacv1.PolicyRules over a small per-pair vocabulary " +
		"(wildcards in groups/resources/verbs, x/sub and */sub resources, resource names, non-resource URLs with exact, " +
		"trailing-* and * forms, empty lists; requests partly derived from allow rules by narrowing/widening) plus the " +
		"complete grid of single-token rule pairs; each pair is judged on the complete universe of concrete requests " +
		"built from its tokens plus one fresh token per dimension. A pair is distinct by its canonical JSON and " +
		"non-trivial if either side has a wildcard, a resource name or a URL rule. part 2: worlds with a target " +
		"ProviderRevision, family members from same/different registry and organisation, allow role and permission " +
		"requests, reconciled by the real roles.Reconciler in up to three phases; non-trivial if a family member from " +
		"another registry/org exists or requests are non-empty. part 3: XRDs with/without claim names through the real " +
		"definition renderer and reconciler. part 4: real binding reconciler with own and foreign Deployments. " +
		"Not generated (debatable): literal \"*\" resource names, empty-string tokens other than the core group, " +
		"\"x/*\" resources, rules mixing resources and URLs, bare \"localhost\" registries, unparsable image references."
	c.Rule += " part 5: two revisions of unrelated providers reconciled by ONE roles.Reconciler: A parked before each of its API calls / inside the validator, B runs to completion, A resumes; all ClusterRoles must equal those of the sequential run A;B on a copy of the cluster."
	c.Rule += " " + "Part 4 shrinks the set of provider deployments: the binding loses the subject."
	c.Rule += " " + "A fifth of the XRDs carry an object name other than <plural>.<group>."
	c.Rule += " " + "Family members that are older revisions of the same Provider object from another organisation (parent-package label)."
	c.Rule += " " + "A quarter of the role-reconciler targets start as an inactive revision, and targets are activated / deactivated between phases."
	c.Assumptions = []string{
		"Kubernetes RBAC semantics are those of RuleAllows/VerbMatches/APIGroupMatches/ResourceMatches/ResourceNameMatches/NonResourceURLMatches as documented; the oracle re-implements them",
		"a concrete universe built from all tokens of a pair plus one fresh token per dimension is a complete model because matching only compares tokens for equality or a path against a literal prefix",
		"over-rejection by the validator (e.g. pods/status against */status, URL prefixes) is safe and not reported",
		"CRD-derived and finalizer grants are accepted with any verb; the property does not restrict verbs",
		"registry and organisation of an image are taken from the generator's own (registry, org) tuple and an independent reference parser, default registry xpkg.crossplane.io, docker.io = index.docker.io",
		"the simulated API server stands in for a real one; no faults are injected in this check",
		"golden/rbac_baseline.json is the reviewed baseline; a run-time superset is a violation",
	}
	c.Floor = 200
	rn := &runner{c: c, samples: map[string]int{}, maxes: map[string]int64{}}

	base, err := loadBaseline()
	if err != nil {
		c.Inconclusive("cannot load golden/rbac_baseline.json: " + err.Error())
		c.Finish()
	}

	// part 1
	grid := gridRules()
	rn.run("grid", len(grid)*len(grid), 0, func(i int, _ *rand.Rand) *result {
		return pairCase("grid", grid[i/len(grid)], grid[i%len(grid)])
	})
	c.Count("p1_grid_rules", int64(len(grid)))
	rn.run("pair", c.N(40000, 400000), 1, func(_ int, rng *rand.Rand) *result {
		a, q := genPair(rng)
		return pairCase("pair", a, q)
	})
	// part 2
	rn.run("recon", c.N(4000, 40000), 1, func(i int, rng *rand.Rand) *result { return reconCase(i, rng, base) })
	// part 5
	rn.run("interleave", c.N(150, 2000), 0, func(i int, rng *rand.Rand) *result { return interleaveCase(i, rng) })
	// part 3
	rn.run("xrd", c.N(2000, 20000), 1, func(i int, rng *rand.Rand) *result { return xrdCase(i, rng) })
	// part 4
	rn.run("bind", c.N(500, 5000), 1, func(i int, rng *rand.Rand) *result { return bindCase(i, rng) })

	for k, v := range rn.maxes {
		c.Count(k, v)
	}
	for _, k := range []string{"harness_panics", "harness_parser_disagrees_with_generator", "harness_cannot_decode_role"} {
		if c.Counter(k) > 0 {
			c.Inconclusive(fmt.Sprintf("%s=%d: the harness itself misbehaved", k, c.Counter(k)))
		}
	}
	if c.Only == "" {
		need := func(counter string, min int64) {
			if c.Counter(counter) < min {
				c.Inconclusive(fmt.Sprintf("%s=%d under %d: that part observed too little", counter, c.Counter(counter), min))
			}
		}
		need("p1_rules_accepted", 1000)
		need("p1_rules_rejected", 1000)
		need("p1_pairs_accepted_covered_nonempty", 200)
		need("p2_reconciles_with_rejection", 50)
		need("p2_reconciles_wrote_system_role", 50)
		need("p2_system_roles_checked", 50)
		need("p2_foreign_members_present_and_role_written", 20)
		need("p3_roles_checked", 100)
		need("p4_bindings_checked", 20)
	}
	c.Finish()
}
