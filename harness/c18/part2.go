//go:build verif

package main

// Part 2: the real roles.Reconciler, wired as in roles.Setup (ClusterRoleBackedValidator on a
// named ClusterRole + OrgDiffer), on the simulated API server.

import (
	"context"
	"encoding/json"
	"fmt"
	"math/rand/v2"
	"os"
	"path/filepath"
	"strings"

	rbacv1 "k8s.io/api/rbac/v1"
	extv1 "k8s.io/apiextensions-apiserver/pkg/apis/apiextensions/v1"
	metav1 "k8s.io/apimachinery/pkg/apis/meta/v1"
	"k8s.io/apimachinery/pkg/runtime"
	"k8s.io/apimachinery/pkg/types"
	clientgoscheme "k8s.io/client-go/kubernetes/scheme"
	"sigs.k8s.io/controller-runtime/pkg/client"
	"sigs.k8s.io/controller-runtime/pkg/manager"
	"sigs.k8s.io/controller-runtime/pkg/reconcile"

	xpv1 "github.com/crossplane/crossplane-runtime/apis/common/v1"

	xpextv1 "github.com/crossplane/crossplane/apis/apiextensions/v1"
	pkgv1 "github.com/crossplane/crossplane/apis/pkg/v1"
	"github.com/crossplane/crossplane/internal/controller/rbac/provider/roles"
	"github.com/crossplane/crossplane/verifh/kit"
	"github.com/crossplane/crossplane/verifh/sim"
)

var scheme = func() *runtime.Scheme {
	s := runtime.NewScheme()
	for _, f := range []func(*runtime.Scheme) error{clientgoscheme.AddToScheme, pkgv1.AddToScheme, extv1.AddToScheme, xpextv1.AddToScheme} {
		if err := f(s); err != nil {
			panic(err)
		}
	}
	return s
}()

// fakeMgr is the only thing NewReconciler needs from a manager: its client.
type fakeMgr struct {
	manager.Manager
	c client.Client
}

func (m fakeMgr) GetClient() client.Client { return m.c }

func loadBaseline() ([]rbacv1.PolicyRule, error) {
	b, err := os.ReadFile(filepath.Join(kit.Root(), "golden", "rbac_baseline.json"))
	if err != nil {
		return nil, err
	}
	var g struct {
		Rules []rbacv1.PolicyRule `json:"rules"`
	}
	if err := json.Unmarshal(b, &g); err != nil {
		return nil, err
	}
	if len(g.Rules) == 0 {
		return nil, fmt.Errorf("no rules")
	}
	return g.Rules, nil
}

// spyValidator passes through to the production validator and remembers what it rejected.
type spyValidator struct {
	inner    roles.PermissionRequestsValidator
	calls    int
	rejected []roles.Rule
	err      error
}

func (s *spyValidator) ValidatePermissionRequests(ctx context.Context, requested ...rbacv1.PolicyRule) ([]roles.Rule, error) {
	rej, err := s.inner.ValidatePermissionRequests(ctx, requested...)
	s.calls++
	s.rejected, s.err = rej, err
	return rej, err
}

type crd struct{ Group, Plural string }

type member struct {
	Name   string `json:"name"`
	Image  string `json:"image"`
	Family string `json:"family,omitempty"`
	Class  string `json:"class"`
	CRDs   []crd  `json:"crds"`
	// Parent is the value of the pkg.crossplane.io/package label: the Provider object the revision
	// belongs to. A Provider whose source moved to another organisation has revisions of both.
	Parent string `json:"parentPackage,omitempty"`
	reg    string
	org    string
}

var (
	poolRegistries = []string{defaultRegistry, "xpkg.upbound.io", "ghcr.io", "registry.example.com:5000", "index.docker.io", "xpkg.upbound.io:443"}
	poolOrgs       = []string{"acme", "acme-corp", "acme2", "evil", "upbound"}
	poolPlurals    = []string{"buckets", "instances", "queues", "providerconfigs", "users", "clusters", "keys"}
)

const hexDigest = "sha256:4bf1a0a3a3a0b0ba1c9a9d0e7a4c2d3f5e6a7b8c9d0e1f2a3b4c5d6e7f8091a2"

func renderImage(r *rand.Rand, reg, org, name string) string {
	s := ""
	switch {
	case reg == defaultRegistry && r.IntN(2) == 0: // implied default registry
	case reg == "index.docker.io" && r.IntN(2) == 0:
		s = "docker.io/"
	default:
		s = reg + "/"
	}
	s += org + "/"
	if r.IntN(5) == 0 {
		s += "sub/"
	}
	s += name
	switch r.IntN(4) {
	case 0:
		s += ":v1.2.3"
	case 1:
		s += "@" + hexDigest
	case 2:
		s += ":v0.9.0@" + hexDigest
	}
	return s
}

func otherThan(r *rand.Rand, pool []string, not string) string {
	for {
		if s := one(r, pool); s != not {
			return s
		}
	}
}

func crdRef(c crd, ver string) xpv1.TypedReference {
	return xpv1.TypedReference{APIVersion: "apiextensions.k8s.io/" + ver, Kind: "CustomResourceDefinition", Name: c.Plural + "." + c.Group}
}

// noiseRefs are owned objects that are not CRDs and therefore define no resource.
func noiseRefs(r *rand.Rand) []xpv1.TypedReference {
	all := []xpv1.TypedReference{
		{APIVersion: "apps/v1", Kind: "Deployment", Name: "pods.apps"},
		{APIVersion: "v1", Kind: "ServiceAccount", Name: "secrets.rbac.authorization.k8s.io"},
		{APIVersion: "admissionregistration.k8s.io/v1", Kind: "ValidatingWebhookConfiguration", Name: "clusterroles.rbac.authorization.k8s.io"},
		{APIVersion: "example.org/v1", Kind: "CustomResourceDefinition", Name: "nodes.example.org"},
		{APIVersion: "apiextensions.k8s.io/v1", Kind: "ConversionReview", Name: "namespaces.example.org"},
	}
	var out []xpv1.TypedReference
	for _, n := range all {
		if r.IntN(4) == 0 {
			out = append(out, n)
		}
	}
	return out
}

type reconWorld struct {
	w       *sim.World
	admin   *sim.Client
	target  *member
	members []*member
	refs    map[string][]xpv1.TypedReference
	allow   []rbacv1.PolicyRule // nil when the role does not exist / none configured
	hasRole bool
	mode    string // allow-role | allow-role-missing | no-allow-role-configured
	q       []rbacv1.PolicyRule
	voc     *vocab
	spy     *spyValidator
	rec     *roles.Reconciler
	// inactive: the target revision's desiredState is Inactive at the moment
	inactive bool
	crdSeen map[crd]bool
	nextID  int
}

func (rw *reconWorld) seedCRD(c crd) {
	if rw.crdSeen[c] {
		return
	}
	rw.crdSeen[c] = true
	kind := strings.ToUpper(c.Plural[:1]) + strings.TrimSuffix(c.Plural[1:], "s")
	rw.w.MustSeed("pkg-manager", map[string]any{
		"apiVersion": "apiextensions.k8s.io/v1", "kind": "CustomResourceDefinition",
		"metadata": map[string]any{"name": c.Plural + "." + c.Group},
		"spec": map[string]any{"group": c.Group, "scope": "Cluster",
			"names":    map[string]any{"plural": c.Plural, "kind": kind},
			"versions": []any{map[string]any{"name": "v1", "served": true, "storage": true}}},
	})
}

func (rw *reconWorld) createRevision(r *rand.Rand, m *member, requests []rbacv1.PolicyRule, withNoise bool) {
	pr := &pkgv1.ProviderRevision{ObjectMeta: metav1.ObjectMeta{Name: m.Name}}
	pr.Labels = map[string]string{}
	if m.Family != "" {
		pr.Labels["pkg.crossplane.io/provider-family"] = m.Family
	}
	if m.Parent != "" {
		pr.Labels["pkg.crossplane.io/package"] = m.Parent
	}
	pr.Spec.Package = m.Image
	pr.Spec.DesiredState = pkgv1.PackageRevisionActive
	pr.Spec.Revision = 1
	var refs []xpv1.TypedReference
	for _, c := range m.CRDs {
		rw.seedCRD(c)
		ver := "v1"
		if r.IntN(8) == 0 {
			ver = "v1beta1"
		}
		refs = append(refs, crdRef(c, ver))
	}
	if withNoise {
		refs = append(refs, noiseRefs(r)...)
		r.Shuffle(len(refs), func(i, j int) { refs[i], refs[j] = refs[j], refs[i] })
	}
	rw.refs[m.Name] = refs
	if err := rw.admin.Create(ctx, pr); err != nil {
		panic(err)
	}
	pr.Status.ObjectRefs = refs
	pr.Status.PermissionRequests = copyRules(requests)
	if err := rw.admin.Status().Update(ctx, pr); err != nil {
		panic(err)
	}
}

func (rw *reconWorld) setRequests(q []rbacv1.PolicyRule) {
	pr := &pkgv1.ProviderRevision{}
	if err := rw.admin.Get(ctx, types.NamespacedName{Name: rw.target.Name}, pr); err != nil {
		panic(err)
	}
	pr.Status.PermissionRequests = copyRules(q)
	if err := rw.admin.Status().Update(ctx, pr); err != nil {
		panic(err)
	}
	rw.q = q
}

func (rw *reconWorld) setAllow(a []rbacv1.PolicyRule) {
	cr := &rbacv1.ClusterRole{}
	if err := rw.admin.Get(ctx, types.NamespacedName{Name: allowRoleName}, cr); err != nil {
		panic(err)
	}
	cr.Rules = copyRules(a)
	if err := rw.admin.Update(ctx, cr); err != nil {
		panic(err)
	}
	rw.allow = a
}

func (rw *reconWorld) genCRDs(r *rand.Rand, org string, n int, shareWith *member) []crd {
	var out []crd
	groups := []string{"aws." + org + ".io", "gcp." + org + ".io", org + ".io"}
	for i := 0; i < n; i++ {
		g := one(r, groups)
		if shareWith != nil && len(shareWith.CRDs) > 0 && r.IntN(3) == 0 {
			g = shareWith.CRDs[r.IntN(len(shareWith.CRDs))].Group // same API group, different resource
		}
		c := crd{Group: g, Plural: one(r, poolPlurals)}
		dup := false
		for _, m := range rw.members {
			for _, o := range m.CRDs {
				dup = dup || o == c
			}
		}
		for _, o := range out {
			dup = dup || o == c
		}
		if dup {
			// CRDs are unique cluster objects; a second owner of the same CRD would make the
			// "foreign" resource legitimately the target's own. Keep ownership disjoint.
			c.Plural = fmt.Sprintf("%s%d", c.Plural[:len(c.Plural)-1], rw.nextID) + "s"
			rw.nextID++
		}
		out = append(out, c)
	}
	return out
}

var memberClasses = []string{"same-registry-and-org", "other-org", "other-registry", "other-registry-and-org", "other-family", "no-family-label", "other-org-same-parent-package"}

func (rw *reconWorld) genMember(r *rand.Rand, class string) *member {
	t := rw.target
	m := &member{Class: class, Family: t.Family, reg: t.reg, org: t.org}
	switch class {
	case "other-org":
		m.org = otherThan(r, poolOrgs, t.org)
	case "other-org-same-parent-package":
		// an older revision of the SAME Provider object, from before its source moved to this organisation
		m.org = otherThan(r, poolOrgs, t.org)
		m.Parent = t.Parent
	case "other-registry":
		m.reg = otherThan(r, poolRegistries, t.reg)
	case "other-registry-and-org":
		m.reg, m.org = otherThan(r, poolRegistries, t.reg), otherThan(r, poolOrgs, t.org)
	case "other-family":
		m.Family = "provider-family-other"
	case "no-family-label":
		m.Family = ""
	}
	m.Name = fmt.Sprintf("provider-%s-m%d-abcdef%d", m.org, rw.nextID, rw.nextID)
	if m.Parent == "" {
		m.Parent = fmt.Sprintf("provider-m%d", rw.nextID)
	}
	rw.nextID++
	m.Image = renderImage(r, m.reg, m.org, fmt.Sprintf("provider-m%d", rw.nextID))
	crdOrg := m.org
	m.CRDs = rw.genCRDs(r, crdOrg, 1+r.IntN(3), t)
	return m
}

func reconCase(i int, r *rand.Rand, baseline []rbacv1.PolicyRule) *result {
	res := newResult()
	rw := &reconWorld{w: sim.NewWorld(scheme, uint64(i)+1), refs: map[string][]xpv1.TypedReference{}, crdSeen: map[crd]bool{}, nextID: 1}
	rw.admin = rw.w.Client("admin")
	rw.voc = genVocab(r)

	// target revision
	t := &member{Class: "target", reg: one(r, poolRegistries), org: one(r, poolOrgs)}
	if r.IntN(8) > 0 {
		t.Family = "provider-family-" + t.org
	}
	t.Name = fmt.Sprintf("provider-%s-target-0123abcd", t.org)
	t.Parent = "provider-target"
	t.Image = renderImage(r, t.reg, t.org, "provider-target")
	rw.target = t
	t.CRDs = rw.genCRDs(r, t.org, r.IntN(4), nil)
	if len(t.CRDs) == 0 && r.IntN(3) > 0 {
		t.CRDs = rw.genCRDs(r, t.org, 1, nil)
	}

	// allow list and requests
	a, q := genPairWith(r, rw.voc)
	switch x := r.IntN(20); {
	case x == 0:
		rw.mode = "allow-role-missing"
	case x <= 2:
		rw.mode = "no-allow-role-configured"
	default:
		rw.mode = "allow-role"
		rw.hasRole = true
		rw.allow = a
		if err := rw.admin.Create(ctx, &rbacv1.ClusterRole{ObjectMeta: metav1.ObjectMeta{Name: allowRoleName}, Rules: copyRules(a)}); err != nil {
			panic(err)
		}
	}
	if r.IntN(4) == 0 {
		q = nil
	}
	rw.q = q
	rw.createRevision(r, t, q, true)
	// a quarter of the targets start out as an INACTIVE revision (manual activation, or the older
	// revision after an upgrade): the package manager records object references and permission
	// requests for those too
	if rr := rand.New(rand.NewPCG(uint64(i)+77, 0x1ac71fe)); rr.IntN(4) == 0 {
		rw.setDesiredState(pkgv1.PackageRevisionInactive)
		res.count("p2_targets_starting_inactive", 1)
	}

	nm := r.IntN(5)
	for k := 0; k < nm; k++ {
		m := rw.genMember(r, memberClasses[r.IntN(len(memberClasses))])
		rw.members = append(rw.members, m)
		rw.createRevision(r, m, nil, r.IntN(2) == 0)
	}

	// production wiring (roles.Setup)
	rc := rw.w.Client("rbac-roles")
	mgr := fakeMgr{c: rc}
	if rw.mode == "no-allow-role-configured" {
		rw.spy = &spyValidator{inner: roles.PermissionRequestsValidatorFn(roles.VerySecureValidator)}
	} else {
		rw.spy = &spyValidator{inner: roles.NewClusterRoleBackedValidator(rc, allowRoleName)}
	}
	rw.rec = roles.NewReconciler(mgr,
		roles.WithPermissionRequestsValidator(rw.spy),
		roles.WithOrgDiffer(roles.OrgDiffer{DefaultRegistry: defaultRegistry}))

	phases := 1 + r.IntN(3)
	var trace []string
	for ph := 0; ph < phases; ph++ {
		op := "initial"
		if ph > 0 {
			op = rw.mutate(r)
		}
		trace = append(trace, op)
		rw.reconcileAndCheck(res, ph, op, baseline, trace)
	}

	foreign := 0
	for _, m := range rw.members {
		res.count("p2_members_"+m.Class, 1)
		if m.Family == t.Family && t.Family != "" && m.Class != "same-registry-and-org" {
			foreign++
		}
	}
	res.fp = kit.JSON([]any{t, rw.members, rw.mode, a, q, trace})
	res.nt = foreign > 0 || len(q) > 0
	res.sample = map[string]any{"target": t, "members": rw.members, "mode": rw.mode, "allow": a, "requests": q, "phases": trace}
	return res
}

// genPairWith is genPair over a given vocabulary, biased towards derived (often covered)
// requests so that many reconciles get past validation.
func genPairWith(r *rand.Rand, v *vocab) (a, q []rbacv1.PolicyRule) {
	na := 1 + r.IntN(3)
	pw := []float64{0.05, 0.2, 0.45}[r.IntN(3)]
	for i := 0; i < na; i++ {
		a = append(a, v.genRule(r, pw))
	}
	nq := 1 + r.IntN(2)
	for i := 0; i < nq; i++ {
		if r.IntN(5) > 0 {
			q = append(q, v.derive(r, a[r.IntN(len(a))]))
			continue
		}
		q = append(q, v.genRule(r, 0.1))
	}
	return a, q
}

// setDesiredState is the package manager (de)activating the target revision.
func (rw *reconWorld) setDesiredState(st pkgv1.PackageRevisionDesiredState) {
	pr := &pkgv1.ProviderRevision{}
	if err := rw.admin.Get(ctx, types.NamespacedName{Name: rw.target.Name}, pr); err != nil {
		panic(err)
	}
	pr.Spec.DesiredState = st
	if err := rw.admin.Update(ctx, pr); err != nil {
		panic(err)
	}
	rw.inactive = st == pkgv1.PackageRevisionInactive
}

func (rw *reconWorld) mutate(r *rand.Rand) string {
	if r.IntN(5) == 0 {
		if rw.inactive {
			rw.setDesiredState(pkgv1.PackageRevisionActive)
			return "target-activated"
		}
		rw.setDesiredState(pkgv1.PackageRevisionInactive)
		return "target-deactivated"
	}
	switch r.IntN(6) {
	case 0, 1:
		var q []rbacv1.PolicyRule
		if len(rw.allow) > 0 && r.IntN(3) > 0 {
			q = append(q, rw.voc.derive(r, rw.allow[r.IntN(len(rw.allow))]))
		} else {
			q = append(q, rw.voc.genRule(r, 0.3))
		}
		if r.IntN(2) == 0 {
			q = append(rw.q[:len(rw.q):len(rw.q)], q...)
		}
		rw.setRequests(q)
		return "set-requests"
	case 2:
		if !rw.hasRole {
			return "noop"
		}
		var a []rbacv1.PolicyRule
		if len(rw.allow) > 1 && r.IntN(2) == 0 {
			a = rw.allow[:len(rw.allow)-1] // shrink
		} else {
			a = []rbacv1.PolicyRule{rw.voc.genRule(r, 0.2)}
		}
		rw.setAllow(a)
		return "set-allow-role"
	case 3:
		m := rw.genMember(r, memberClasses[1+r.IntN(3)])
		rw.members = append(rw.members, m)
		rw.createRevision(r, m, nil, false)
		return "add-member-" + m.Class
	case 4:
		m := rw.genMember(r, memberClasses[0])
		rw.members = append(rw.members, m)
		rw.createRevision(r, m, nil, false)
		return "add-member-" + m.Class
	default:
		// the target gains a CRD
		c := rw.genCRDs(r, rw.target.org, 1, nil)
		rw.seedCRD(c[0])
		rw.target.CRDs = append(rw.target.CRDs, c[0])
		pr := &pkgv1.ProviderRevision{}
		if err := rw.admin.Get(ctx, types.NamespacedName{Name: rw.target.Name}, pr); err != nil {
			panic(err)
		}
		pr.Status.ObjectRefs = append(pr.Status.ObjectRefs, crdRef(c[0], "v1"))
		if err := rw.admin.Status().Update(ctx, pr); err != nil {
			panic(err)
		}
		return "target-gains-crd"
	}
}

// allowedRules is the oracle's upper bound for the target's system role.
func (rw *reconWorld) allowedRules(baseline, requests []rbacv1.PolicyRule) (out []rbacv1.PolicyRule, legit int) {
	t := rw.target
	groups := map[string]bool{}
	add := func(c crd) {
		out = append(out, rbacv1.PolicyRule{APIGroups: []string{c.Group}, Resources: []string{c.Plural, c.Plural + "/status"}, Verbs: []string{star}})
		groups[c.Group] = true
	}
	for _, c := range t.CRDs {
		add(c)
	}
	for _, m := range rw.members {
		if t.Family == "" || m.Family != t.Family {
			continue
		}
		if !sameOrg(t.Image, m.Image) {
			continue
		}
		legit++
		for _, c := range m.CRDs {
			add(c)
		}
	}
	gl := make([]string, 0, len(groups))
	for g := range groups {
		gl = append(gl, g)
	}
	if len(gl) > 0 {
		out = append(out, rbacv1.PolicyRule{APIGroups: gl, Resources: []string{"*/finalizers"}, Verbs: []string{star}})
	}
	out = append(out, baseline...)
	out = append(out, requests...)
	return out, legit
}

func (rw *reconWorld) classifyEscape(x *creq) string {
	if x.URL {
		return "system-role-grants-unrequested-url"
	}
	for _, m := range rw.members {
		for _, c := range m.CRDs {
			if c.Group == x.Group && c.Plural == x.Res {
				return "system-role-grants-crd-of-" + m.Class + "-member"
			}
		}
	}
	switch {
	case x.Sub == "finalizers":
		return "system-role-grants-finalizers-outside-owned-groups"
	case x.Group == "" || x.Group == "coordination.k8s.io":
		return "system-role-exceeds-baseline"
	}
	return "system-role-grants-unowned-resource"
}

func (rw *reconWorld) reconcileAndCheck(res *result, ph int, op string, baseline []rbacv1.PolicyRule, trace []string) {
	t := rw.target
	// generator truth and reference parser must agree on registry/org, else the harness is wrong
	for _, m := range rw.members {
		if (m.reg == t.reg && m.org == t.org) != sameOrg(t.Image, m.Image) {
			res.count("harness_parser_disagrees_with_generator", 1)
		}
	}

	mark := rw.w.LogLen()
	rw.spy.calls, rw.spy.rejected, rw.spy.err = 0, nil, nil
	var rerr error
	perr := kit.Try(func() {
		_, rerr = rw.rec.Reconcile(ctx, reconcile.Request{NamespacedName: types.NamespacedName{Name: t.Name}})
	})
	res.count("p2_reconciles", 1)
	if perr != nil {
		res.count("p2_reconcile_panics", 1)
	}
	if rerr != nil {
		res.count("p2_reconcile_errors", 1)
	}

	var writes []sim.Event
	for _, ev := range rw.w.Log(mark) {
		if ev.Actor == "rbac-roles" && ev.Key.Kind == "ClusterRole" && ev.IsWrite() {
			writes = append(writes, ev)
		}
	}
	short := func() []string {
		var s []string
		for _, ev := range writes {
			s = append(s, ev.Short())
		}
		return s
	}

	// independent judgement of the requests against the allow list currently in the store
	u := buildUniverse(rw.allow, rw.q)
	esc, granted := firstEscape(u, rw.q, rw.allow)
	rejected := len(rw.spy.rejected) > 0
	switch {
	case rw.spy.calls == 0:
		res.count("p2_reconciles_validator_not_reached", 1)
	case rw.spy.err != nil:
		res.count("p2_reconciles_validator_error", 1)
	case rejected:
		res.count("p2_reconciles_with_rejection", 1)
		if esc == nil {
			res.count("p2_reconciles_overrejected_quiet", 1)
		}
	default:
		res.count("p2_reconciles_without_rejection", 1)
		if granted > 0 {
			res.count("p2_reconciles_accepted_nonempty_requests", 1)
		}
	}
	witness := func(extra map[string]any) map[string]any {
		w := map[string]any{"target": t, "members": rw.members, "mode": rw.mode, "allow": rw.allow, "requests": rw.q,
			"phase": ph, "phases": trace, "role_writes": short(), "rejected_by_validator": fmt.Sprint(rw.spy.rejected)}
		for k, v := range extra {
			w[k] = v
		}
		return w
	}
	if len(writes) > 0 {
		res.count("p2_reconciles_with_role_writes", 1)
		switch {
		case rejected:
			res.violate("role-written-although-request-rejected",
				fmt.Sprintf("phase %d (%s): the validator rejected %d requested rule(s) but %d ClusterRole write(s) were issued for the revision", ph, op, len(rw.spy.rejected), len(writes)),
				witness(nil))
		case rw.spy.err != nil:
			res.violate("role-written-although-validation-failed",
				fmt.Sprintf("phase %d (%s): validating the requests failed (%v) but ClusterRoles were written", ph, op, rw.spy.err), witness(nil))
		case esc != nil:
			res.violate("role-written-with-uncovered-request",
				fmt.Sprintf("phase %d (%s): requests grant %s which the allow list does not, yet ClusterRoles were written", ph, op, kit.JSON(esc)),
				witness(map[string]any{"concrete_request": esc}))
		}
	}

	// every system role body written in this phase must stay within the oracle's bound
	allowed, legit := rw.allowedRules(baseline, rw.q)
	foreign := 0
	for _, m := range rw.members {
		if t.Family != "" && m.Family == t.Family && !sameOrg(t.Image, m.Image) {
			foreign++
		}
	}
	wroteSystem := false
	for _, ev := range writes {
		if !strings.HasSuffix(ev.Key.Name, ":system") || ev.Err != "" {
			continue
		}
		body := ev.After
		if body == nil {
			body = ev.Body
		}
		if body == nil {
			continue
		}
		cr := &rbacv1.ClusterRole{}
		if err := runtime.DefaultUnstructuredConverter.FromUnstructured(body, cr); err != nil {
			res.count("harness_cannot_decode_role", 1)
			continue
		}
		wroteSystem = true
		res.count("p2_system_roles_checked", 1)
		su := buildUniverse(cr.Rules, allowed)
		res.count("p2_universe_total", su.size())
		res.count("p2_universe_max", su.size())
		if x, _ := firstEscape(su, cr.Rules, allowed); x != nil {
			res.violate(rw.classifyEscape(x),
				fmt.Sprintf("phase %d (%s): system role %s grants %s, which is neither a resource of an owned / same-registry-and-org family CRD, nor baseline, nor an accepted request", ph, op, cr.Name, kit.JSON(x)),
				witness(map[string]any{"concrete_request": x, "system_role_rules": cr.Rules, "oracle_upper_bound": allowed}))
		}
	}
	if wroteSystem {
		res.count("p2_reconciles_wrote_system_role", 1)
		if foreign > 0 {
			res.count("p2_foreign_members_present_and_role_written", 1)
		}
		if legit > 0 {
			res.count("p2_legit_members_present_and_role_written", 1)
		}
	} else if len(writes) > 0 {
		res.count("p2_writes_without_system_role", 1)
	}
}
