//go:build verif

package main

// Part 3: ClusterRoles derived for an XRD (real definition.RenderClusterRoles and
// definition.Reconciler). Part 4: the ClusterRoleBinding of the real binding.Reconciler.

import (
	"fmt"
	"math/rand/v2"
	"sort"
	"strings"

	appsv1 "k8s.io/api/apps/v1"
	corev1 "k8s.io/api/core/v1"
	rbacv1 "k8s.io/api/rbac/v1"
	extv1 "k8s.io/apiextensions-apiserver/pkg/apis/apiextensions/v1"
	metav1 "k8s.io/apimachinery/pkg/apis/meta/v1"
	"k8s.io/apimachinery/pkg/runtime"
	"k8s.io/apimachinery/pkg/runtime/schema"
	"k8s.io/apimachinery/pkg/types"
	"k8s.io/utils/ptr"
	"sigs.k8s.io/controller-runtime/pkg/reconcile"

	xpv1 "github.com/crossplane/crossplane-runtime/apis/common/v1"

	xpextv1 "github.com/crossplane/crossplane/apis/apiextensions/v1"
	pkgv1 "github.com/crossplane/crossplane/apis/pkg/v1"
	"github.com/crossplane/crossplane/internal/controller/rbac/definition"
	"github.com/crossplane/crossplane/internal/controller/rbac/provider/binding"
	"github.com/crossplane/crossplane/internal/controller/rbac/provider/roles"
	"github.com/crossplane/crossplane/verifh/kit"
	"github.com/crossplane/crossplane/verifh/sim"
)

var (
	xrdGroups  = []string{"example.org", "db.acme.io", "platform.acme.io", "apps", "x.y.z.example.com"}
	xrdPlurals = []string{"xdatabases", "xclusters", "compositenetworks", "xbuckets", "xqueues"}
	clmPlurals = []string{"databases", "clusters", "networks", "buckets", "queues", "secrets"}
)

type xrdSpec struct {
	Group  string `json:"group"`
	Plural string `json:"plural"`
	Claim  string `json:"claimPlural,omitempty"`
	// ObjName, when set, is the XRD's metadata.name; the convention <plural>.<group> is not
	// enforced by the API server, and the roles follow the spec, not the object name
	ObjName string `json:"objectName,omitempty"`
}

func (x xrdSpec) object() *xpextv1.CompositeResourceDefinition {
	kind := strings.ToUpper(x.Plural[:1]) + strings.TrimSuffix(x.Plural[1:], "s")
	d := &xpextv1.CompositeResourceDefinition{
		ObjectMeta: metav1.ObjectMeta{Name: x.name()},
		Spec: xpextv1.CompositeResourceDefinitionSpec{
			Group: x.Group,
			Names: extv1.CustomResourceDefinitionNames{Plural: x.Plural, Singular: strings.TrimSuffix(x.Plural, "s"), Kind: kind, ListKind: kind + "List"},
			Versions: []xpextv1.CompositeResourceDefinitionVersion{{Name: "v1", Served: true, Referenceable: true,
				Schema: &xpextv1.CompositeResourceValidation{OpenAPIV3Schema: runtime.RawExtension{Raw: []byte(`{"type":"object"}`)}}}},
		},
	}
	if x.Claim != "" {
		ck := strings.ToUpper(x.Claim[:1]) + strings.TrimSuffix(x.Claim[1:], "s")
		d.Spec.ClaimNames = &extv1.CustomResourceDefinitionNames{Plural: x.Claim, Singular: strings.TrimSuffix(x.Claim, "s"), Kind: ck, ListKind: ck + "List"}
	}
	return d
}

func (x xrdSpec) name() string {
	if x.ObjName != "" {
		return x.ObjName
	}
	return x.Plural + "." + x.Group
}

// bound is the oracle's upper bound for every role derived from the XRD: its composite and
// claim resources with their status and finalizers subresources, in the XRD's group.
func (x xrdSpec) bound() []rbacv1.PolicyRule {
	rs := []string{x.Plural, x.Plural + "/status", x.Plural + "/finalizers"}
	if x.Claim != "" {
		rs = append(rs, x.Claim, x.Claim+"/status", x.Claim+"/finalizers")
	}
	return []rbacv1.PolicyRule{{APIGroups: []string{x.Group}, Resources: rs, Verbs: []string{star}}}
}

func checkXRDRoles(res *result, x xrdSpec, rolesIn []rbacv1.ClusterRole, how string, witness map[string]any) {
	bound := x.bound()
	var union []rbacv1.PolicyRule
	for _, cr := range rolesIn {
		res.count("p3_roles_checked", 1)
		union = append(union, cr.Rules...)
		u := buildUniverse(cr.Rules, bound)
		if esc, _ := firstEscape(u, cr.Rules, bound); esc != nil {
			key := "xrd-role-grants-foreign-resource"
			res.violate(key, fmt.Sprintf("%s: role %s derived for XRD %s/%s grants %s, which is not one of its composite/claim resources", how, cr.Name, x.Group, x.Plural, kit.JSON(esc)),
				map[string]any{"xrd": x, "role": cr.Name, "rules": cr.Rules, "concrete_request": esc, "context": witness})
		}
	}
	if len(rolesIn) == 0 {
		return
	}
	need := []string{x.Plural}
	if x.Claim != "" {
		need = append(need, x.Claim)
	}
	for k, p := range need {
		got := false
		for _, v := range []string{"get", "list", "watch", "create", "update", "patch", "delete"} {
			got = got || rulesAllow(union, &creq{Verb: v, Group: x.Group, Res: p, Name: "some-name"})
		}
		if !got {
			key := "xrd-roles-omit-composite-resource"
			if k == 1 {
				key = "xrd-roles-omit-claim-resource"
			}
			res.violate(key, fmt.Sprintf("%s: no role derived for XRD %s/%s grants any verb on %s", how, x.Group, x.Plural, p), map[string]any{"xrd": x, "context": witness})
		}
	}
}

func decodeRoles(w *sim.World, owner types.UID) []rbacv1.ClusterRole {
	var out []rbacv1.ClusterRole
	objs := w.ListObjs(schema.GroupKind{Group: "rbac.authorization.k8s.io", Kind: "ClusterRole"})
	sort.Slice(objs, func(i, j int) bool {
		return sim.Str(objs[i], "metadata", "name") < sim.Str(objs[j], "metadata", "name")
	})
	for _, o := range objs {
		c := sim.ControllerOf(o)
		if c == nil || sim.Str(c, "uid") != string(owner) {
			continue
		}
		cr := rbacv1.ClusterRole{}
		if err := runtime.DefaultUnstructuredConverter.FromUnstructured(o, &cr); err == nil {
			out = append(out, cr)
		}
	}
	return out
}

func xrdCase(i int, r *rand.Rand) *result {
	res := newResult()
	x := xrdSpec{Group: one(r, xrdGroups), Plural: one(r, xrdPlurals)}
	if r.IntN(2) == 0 {
		x.Claim = one(r, clmPlurals)
	}
	if i%5 == 4 {
		x.ObjName = []string{"clusterrolebindings.rbac.authorization.k8s.io", "secrets.core.example.org", "my-composite-thing", "xqueues.other-group.example.org", "pods."}[(i/5)%5]
	}
	viaRecon := i%4 == 0
	res.fp = kit.JSON([]any{x, viaRecon})
	res.nt = true
	res.sample = map[string]any{"xrd": x, "via_reconciler": viaRecon}
	if x.Claim != "" {
		res.count("p3_xrds_with_claim", 1)
	} else {
		res.count("p3_xrds_without_claim", 1)
	}

	var rendered []rbacv1.ClusterRole
	if err := kit.Try(func() { rendered = definition.RenderClusterRoles(x.object()) }); err != nil {
		res.count("p3_render_panics", 1)
		return res
	}
	checkXRDRoles(res, x, rendered, "RenderClusterRoles", nil)
	if !viaRecon {
		return res
	}

	// the reconciler on sim: create, reconcile, then change the XRD (claim names removed /
	// added / renamed) and reconcile again: the stored roles must follow.
	w := sim.NewWorld(scheme, uint64(i)+1)
	admin := w.Client("admin")
	// a second XRD in the same group whose roles must not be touched or merged
	other := xrdSpec{Group: x.Group, Plural: "xothers", Claim: "others"}
	for _, s := range []xrdSpec{x, other} {
		if err := admin.Create(ctx, s.object()); err != nil {
			panic(err)
		}
	}
	rec := definition.NewReconciler(fakeMgr{c: w.Client("rbac-definition")})
	cur := x
	for ph := 0; ph < 2; ph++ {
		d := &xpextv1.CompositeResourceDefinition{}
		if err := admin.Get(ctx, types.NamespacedName{Name: x.name()}, d); err != nil {
			panic(err)
		}
		if ph == 1 {
			switch {
			case cur.Claim != "" && r.IntN(2) == 0:
				cur.Claim = ""
			default:
				cur.Claim = otherThan(r, clmPlurals, cur.Claim)
			}
			d.Spec.ClaimNames = cur.object().Spec.ClaimNames
			if err := admin.Update(ctx, d); err != nil {
				panic(err)
			}
		}
		var rerr error
		perr := kit.Try(func() {
			_, rerr = rec.Reconcile(ctx, reconcile.Request{NamespacedName: types.NamespacedName{Name: d.Name}})
		})
		res.count("p3_reconciles", 1)
		if perr != nil || rerr != nil {
			res.count("p3_reconcile_errors", 1)
			continue
		}
		stored := decodeRoles(w, d.GetUID())
		if len(stored) == 0 {
			res.count("p3_reconciles_without_roles", 1)
		}
		checkXRDRoles(res, cur, stored, fmt.Sprintf("definition.Reconciler phase %d", ph), map[string]any{"original": x, "current": cur})
	}
	return res
}

// ---- part 4 ----

type depl struct {
	NS    string `json:"namespace"`
	Name  string `json:"name"`
	SA    string `json:"serviceAccount"`
	Owner string `json:"ownerRevision"`
}

func bindCase(i int, r *rand.Rand) *result {
	res := newResult()
	w := sim.NewWorld(scheme, uint64(i)+1)
	admin := w.Client("admin")
	revs := []string{"provider-aws-1a2b3c", "provider-gcp-4d5e6f", "provider-aws-9f8e7d"}
	uids := map[string]types.UID{}
	for _, n := range revs {
		pr := &pkgv1.ProviderRevision{ObjectMeta: metav1.ObjectMeta{Name: n}}
		pr.Spec.Package = "xpkg.crossplane.io/acme/" + n
		pr.Spec.DesiredState = pkgv1.PackageRevisionActive
		if err := admin.Create(ctx, pr); err != nil {
			panic(err)
		}
		pr.Status.ObjectRefs = []xpv1.TypedReference{crdRef(crd{Group: "acme.io", Plural: "things" + n[len(n)-2:]}, "v1")}
		if err := admin.Status().Update(ctx, pr); err != nil {
			panic(err)
		}
		uids[n] = pr.GetUID()
	}
	target := revs[r.IntN(len(revs))]
	var ds []depl
	nd := r.IntN(5)
	for k := 0; k < nd; k++ {
		d := depl{NS: one(r, []string{"crossplane-system", "upbound-system", "default"}), Name: fmt.Sprintf("d%d", k),
			SA: one(r, []string{"provider-aws", "provider-gcp", "default", "crossplane"}), Owner: one(r, append(revs, ""))}
		if k == 0 && r.IntN(3) > 0 {
			d.Owner = target
		}
		ds = append(ds, d)
		obj := &appsv1.Deployment{ObjectMeta: metav1.ObjectMeta{Namespace: d.NS, Name: d.Name},
			Spec: appsv1.DeploymentSpec{
				Selector: &metav1.LabelSelector{MatchLabels: map[string]string{"a": d.Name}},
				Template: corev1.PodTemplateSpec{ObjectMeta: metav1.ObjectMeta{Labels: map[string]string{"a": d.Name}},
					Spec: corev1.PodSpec{ServiceAccountName: d.SA, Containers: []corev1.Container{{Name: "c", Image: "i"}}}}}}
		if d.Owner != "" {
			obj.OwnerReferences = []metav1.OwnerReference{{APIVersion: "pkg.crossplane.io/v1", Kind: "ProviderRevision", Name: d.Owner, UID: uids[d.Owner],
				Controller: ptr.To(true), BlockOwnerDeletion: ptr.To(true)}}
		}
		if err := admin.Create(ctx, obj); err != nil {
			panic(err)
		}
	}
	res.fp = kit.JSON([]any{target, ds})
	res.nt = true
	res.sample = map[string]any{"target": target, "deployments": ds}

	// the roles reconciler first, so that the system role the binding must point at exists
	rolesRec := roles.NewReconciler(fakeMgr{c: w.Client("rbac-roles")})
	sysRoles := map[string]string{}
	for _, n := range revs {
		_ = kit.Try(func() {
			_, _ = rolesRec.Reconcile(ctx, reconcile.Request{NamespacedName: types.NamespacedName{Name: n}})
		})
		for _, cr := range decodeRoles(w, uids[n]) {
			if strings.HasSuffix(cr.Name, ":system") {
				sysRoles[n] = cr.Name
			}
		}
	}
	rec := binding.NewReconciler(fakeMgr{c: w.Client("rbac-binding")})
	mark := w.LogLen()
	var rerr error
	perr := kit.Try(func() {
		_, rerr = rec.Reconcile(ctx, reconcile.Request{NamespacedName: types.NamespacedName{Name: target}})
	})
	if perr != nil || rerr != nil {
		res.count("p4_reconcile_errors", 1)
		return res
	}
	want := map[string]bool{}
	for _, d := range ds {
		if d.Owner == target {
			want[d.NS+"/"+d.SA] = true
		}
	}
	for _, ev := range w.Log(mark) {
		if ev.Actor != "rbac-binding" || !ev.IsWrite() || ev.Key.Kind != "ClusterRoleBinding" || ev.After == nil {
			continue
		}
		crb := &rbacv1.ClusterRoleBinding{}
		if err := runtime.DefaultUnstructuredConverter.FromUnstructured(ev.After, crb); err != nil {
			continue
		}
		res.count("p4_bindings_checked", 1)
		wit := map[string]any{"target": target, "deployments": ds, "binding": crb.Name, "roleRef": crb.RoleRef, "subjects": crb.Subjects, "system_roles": sysRoles}
		if crb.RoleRef.Kind != "ClusterRole" || crb.RoleRef.APIGroup != "rbac.authorization.k8s.io" || sysRoles[target] == "" || crb.RoleRef.Name != sysRoles[target] {
			if sysRoles[target] == "" {
				res.count("p4_no_system_role_to_compare", 1)
			} else {
				res.violate("binding-references-other-role", fmt.Sprintf("binding %s of revision %s references %v, not its own system role %s", crb.Name, target, crb.RoleRef, sysRoles[target]), wit)
			}
		}
		got := map[string]bool{}
		for _, s := range crb.Subjects {
			k := s.Namespace + "/" + s.Name
			got[k] = true
			if s.Kind != "ServiceAccount" || !want[k] {
				res.violate("binding-includes-foreign-subject", fmt.Sprintf("binding %s of revision %s binds %s %s, which is not the service account of a Deployment the revision owns", crb.Name, target, s.Kind, k), wit)
			}
		}
		exact := len(got) == len(want)
		for k := range want {
			exact = exact && got[k]
		}
		if exact {
			res.count("p4_bindings_exact", 1)
		} else {
			res.count("p4_bindings_missing_subject_quiet", 1)
		}
		if len(want) > 0 {
			res.count("p4_bindings_with_subjects", 1)
		}
	}
	// the revision's Deployments shrink (a deactivated revision's runtime is removed; its service
	// account may live on): after the next reconcile the stored binding names only service accounts
	// of Deployments the revision still owns
	if len(want) > 0 {
		removed := 0
		want2 := map[string]bool{}
		for k, d := range ds {
			if d.Owner != target {
				continue
			}
			if removed == 0 || r.IntN(2) == 0 {
				obj := &appsv1.Deployment{ObjectMeta: metav1.ObjectMeta{Namespace: d.NS, Name: d.Name}}
				if err := admin.Delete(ctx, obj); err == nil {
					removed++
					ds[k].Owner = "(deleted)"
					continue
				}
			}
			want2[d.NS+"/"+d.SA] = true
		}
		perr := kit.Try(func() {
			_, rerr = rec.Reconcile(ctx, reconcile.Request{NamespacedName: types.NamespacedName{Name: target}})
		})
		if perr == nil && rerr == nil {
			for _, o := range w.ListObjs(sim.Key{Group: "rbac.authorization.k8s.io", Kind: "ClusterRoleBinding"}.GK()) {
				if ctl := sim.ControllerOf(o); ctl == nil || sim.Str(ctl, "uid") != string(uids[target]) {
					continue
				}
				crb := &rbacv1.ClusterRoleBinding{}
				if err := runtime.DefaultUnstructuredConverter.FromUnstructured(o, crb); err != nil {
					continue
				}
				res.count("p4_bindings_checked_after_shrink", 1)
				for _, sj := range crb.Subjects {
					if k := sj.Namespace + "/" + sj.Name; !want2[k] {
						res.violate("binding-keeps-subject-of-removed-deployment", fmt.Sprintf("after %d Deployment(s) of revision %s were removed and the binding reconciled, %s still binds %s %s", removed, target, crb.Name, sj.Kind, k),
							map[string]any{"target": target, "deployments": ds, "binding": crb.Name, "subjects": crb.Subjects, "still_owned": want2})
					}
				}
			}
		}
	}
	return res
}
