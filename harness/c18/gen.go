//go:build verif

package main

import (
	"math/rand/v2"

	rbacv1 "k8s.io/api/rbac/v1"
)

// Token pools. No token contains "~" (reserved for the oracle's fresh tokens), no empty
// string except the core API group, no literal "*" resource name (Kubernetes has no name
// wildcard, the repo treats it as one: documented quirk, out of scope), no "x/*" resource
// (not an RBAC form), no rule mixing resources and non-resource URLs (the API server rejects
// such ClusterRoles).
var (
	poolVerbs  = []string{"get", "list", "watch", "create", "update", "patch", "delete"}
	poolGroups = []string{"", "apps", "example.org", "aws.example.org", "coordination.k8s.io"}
	poolBases  = []string{"pods", "things", "buckets", "secrets", "deployments"}
	poolSubs   = []string{"status", "scale", "finalizers"}
	poolNames  = []string{"foo", "bar", "baz"}
	poolURLs   = []string{"/healthz", "/metrics", "/api", "/api/*", "/api/v1", "/api/v1/*", "/apis/*", "/*", "*"}
)

func pick(r *rand.Rand, pool []string, n int) []string {
	if n > len(pool) {
		n = len(pool)
	}
	idx := r.Perm(len(pool))[:n]
	out := make([]string, n)
	for i, j := range idx {
		out[i] = pool[j]
	}
	return out
}

// vocab is the small per-pair vocabulary; a small vocabulary makes A and Q overlap.
type vocab struct{ verbs, groups, bases, subs, names, urls []string }

func genVocab(r *rand.Rand) *vocab {
	return &vocab{
		verbs:  pick(r, poolVerbs, 2+r.IntN(2)),
		groups: pick(r, poolGroups, 2),
		bases:  pick(r, poolBases, 2),
		subs:   pick(r, poolSubs, 1+r.IntN(2)),
		names:  pick(r, poolNames, 2),
		urls:   pick(r, poolURLs, 3),
	}
}

func one(r *rand.Rand, p []string) string { return p[r.IntN(len(p))] }

func (v *vocab) resourceToken(r *rand.Rand, pWild float64) string {
	switch x := r.Float64(); {
	case x < pWild:
		return star
	case x < pWild+0.12:
		return "*/" + one(r, v.subs)
	case x < pWild+0.37:
		return one(r, v.bases) + "/" + one(r, v.subs)
	default:
		return one(r, v.bases)
	}
}

func listLen(r *rand.Rand) int {
	switch x := r.Float64(); {
	case x < 0.04:
		return 0
	case x < 0.64:
		return 1
	case x < 0.92:
		return 2
	default:
		return 3
	}
}

func tokenList(r *rand.Rand, pWild float64, f func() string) []string {
	n := listLen(r)
	if n == 0 {
		if r.IntN(2) == 0 {
			return nil
		}
		return []string{}
	}
	out := make([]string, 0, n)
	for i := 0; i < n; i++ {
		if r.Float64() < pWild {
			out = append(out, star)
			continue
		}
		out = append(out, f())
	}
	return out
}

// genRule draws one PolicyRule. pWild is the per-token wildcard probability.
func (v *vocab) genRule(r *rand.Rand, pWild float64) rbacv1.PolicyRule {
	if r.Float64() < 0.2 {
		return rbacv1.PolicyRule{
			NonResourceURLs: tokenList(r, 0, func() string { return one(r, v.urls) }),
			Verbs:           tokenList(r, pWild, func() string { return one(r, v.verbs) }),
		}
	}
	pr := rbacv1.PolicyRule{
		APIGroups: tokenList(r, pWild, func() string { return one(r, v.groups) }),
		Resources: tokenList(r, 0, func() string { return v.resourceToken(r, pWild) }),
		Verbs:     tokenList(r, pWild, func() string { return one(r, v.verbs) }),
	}
	if r.Float64() < 0.35 {
		pr.ResourceNames = pick(r, v.names, 1+r.IntN(2))
	}
	return pr
}

func cloneRule(p rbacv1.PolicyRule) rbacv1.PolicyRule { return *p.DeepCopy() }

// derive makes a request rule out of an allow rule: narrowed (should stay covered), widened
// (should not) or with one token swapped. This is what gives a useful share of accepted
// requests next to the rejected ones.
func (v *vocab) derive(r *rand.Rand, a rbacv1.PolicyRule) rbacv1.PolicyRule {
	q := cloneRule(a)
	narrow := func(l []string, f func() string) []string {
		if len(l) == 0 {
			return l
		}
		out := []string{}
		for _, t := range l {
			if r.IntN(3) == 0 && len(l) > 1 {
				continue // drop a token
			}
			if t == star && r.IntN(2) == 0 {
				t = f() // a specific token under the allow rule's wildcard
			}
			out = append(out, t)
		}
		if len(out) == 0 {
			out = append(out, l[0])
		}
		return out
	}
	widen := func(l []string) []string {
		if len(l) == 0 {
			return l
		}
		out := append([]string{}, l...)
		out[r.IntN(len(out))] = star
		return out
	}
	isURL := len(a.NonResourceURLs) > 0
	switch r.IntN(10) {
	case 0, 1, 2, 3, 4: // narrow every dimension
		q.Verbs = narrow(q.Verbs, func() string { return one(r, v.verbs) })
		if isURL {
			q.NonResourceURLs = narrow(q.NonResourceURLs, func() string { return one(r, v.urls) })
			break
		}
		q.APIGroups = narrow(q.APIGroups, func() string { return one(r, v.groups) })
		q.Resources = narrow(q.Resources, func() string {
			if r.IntN(2) == 0 {
				return one(r, v.bases)
			}
			return one(r, v.bases) + "/" + one(r, v.subs)
		})
		if len(q.ResourceNames) == 0 && r.IntN(3) == 0 {
			q.ResourceNames = pick(r, v.names, 1)
		} else if len(q.ResourceNames) > 1 && r.IntN(2) == 0 {
			q.ResourceNames = q.ResourceNames[:1]
		}
	case 5: // identical
	case 6: // widen one dimension
		switch d := r.IntN(4); {
		case d == 0:
			q.Verbs = widen(q.Verbs)
		case isURL:
			q.NonResourceURLs = widen(q.NonResourceURLs)
		case d == 1:
			q.APIGroups = widen(q.APIGroups)
		case d == 2:
			q.Resources = widen(q.Resources)
		default:
			q.ResourceNames = nil
		}
	case 7: // swap one token for another of the vocabulary
		switch d := r.IntN(4); {
		case d == 0 && len(q.Verbs) > 0:
			q.Verbs[r.IntN(len(q.Verbs))] = one(r, v.verbs)
		case isURL && len(q.NonResourceURLs) > 0:
			q.NonResourceURLs[r.IntN(len(q.NonResourceURLs))] = one(r, v.urls)
		case d == 1 && len(q.APIGroups) > 0:
			q.APIGroups[r.IntN(len(q.APIGroups))] = one(r, v.groups)
		case d == 2 && len(q.Resources) > 0:
			q.Resources[r.IntN(len(q.Resources))] = v.resourceToken(r, 0.1)
		default:
			q.ResourceNames = pick(r, v.names, 1)
		}
	case 8: // empty one list
		switch r.IntN(3) {
		case 0:
			q.Verbs = nil
		case 1:
			if isURL {
				q.NonResourceURLs = []string{}
			} else {
				q.APIGroups = nil
			}
		default:
			if !isURL {
				q.Resources = []string{}
			}
		}
	default: // add a token
		q.Verbs = append(q.Verbs, one(r, v.verbs))
		if !isURL && r.IntN(2) == 0 {
			q.Resources = append(q.Resources, v.resourceToken(r, 0.1))
		}
	}
	return q
}

// genPair draws an allow list and a request list.
func genPair(r *rand.Rand) (a, q []rbacv1.PolicyRule) {
	v := genVocab(r)
	na := r.IntN(4) // 0..3 allow rules; 0 = empty allow list
	if r.IntN(10) > 0 && na == 0 {
		na = 1
	}
	pWildA := []float64{0.05, 0.2, 0.45}[r.IntN(3)]
	for i := 0; i < na; i++ {
		a = append(a, v.genRule(r, pWildA))
	}
	nq := 1 + r.IntN(3)
	if r.IntN(25) == 0 {
		nq = 0
	}
	pWildQ := []float64{0.0, 0.1, 0.3}[r.IntN(3)]
	pDerive := []float64{0.3, 0.7, 1.0}[r.IntN(3)]
	for i := 0; i < nq; i++ {
		if len(a) > 0 && r.Float64() < pDerive {
			q = append(q, v.derive(r, a[r.IntN(len(a))]))
			continue
		}
		q = append(q, v.genRule(r, pWildQ))
	}
	return a, q
}

func hasWildcardOrNameOrURL(rs []rbacv1.PolicyRule) bool {
	for _, r := range rs {
		if len(r.ResourceNames) > 0 || len(r.NonResourceURLs) > 0 {
			return true
		}
		for _, l := range [][]string{r.APIGroups, r.Resources, r.Verbs} {
			for _, t := range l {
				if t == star || (len(t) > 1 && t[:2] == "*/") {
					return true
				}
			}
		}
	}
	return false
}
