//go:build verif

package main

import (
	"context"
	"fmt"
	"math/rand/v2"
	"sort"
	"sync/atomic"

	rbacv1 "k8s.io/api/rbac/v1"
	metav1 "k8s.io/apimachinery/pkg/apis/meta/v1"
	"k8s.io/apimachinery/pkg/types"
	"sigs.k8s.io/controller-runtime/pkg/reconcile"

	xpv1 "github.com/crossplane/crossplane-runtime/apis/common/v1"

	pkgv1 "github.com/crossplane/crossplane/apis/pkg/v1"
	"github.com/crossplane/crossplane/internal/controller/rbac/provider/roles"
	"github.com/crossplane/crossplane/verifh/kit"
	"github.com/crossplane/crossplane/verifh/sim"
)

// interleaveCase is part 5: the roles controller reconciles different revisions concurrently
// (MaxConcurrentReconciles > 1) with ONE Reconciler. Two revisions A and B of unrelated
// providers each gain a CRD; A's reconcile is parked right before its k-th API call (every k),
// B's reconcile runs to completion, then A resumes. Reconciles of different revisions write
// disjoint roles, so the roles in the store must equal those of the sequential run A;B on a
// copy of the same cluster - what a revision's roles grant depends on that revision alone.
func interleaveCase(i int, r *rand.Rand) *result {
	res := newResult()
	rw := &reconWorld{w: sim.NewWorld(scheme, uint64(i)+1), refs: map[string][]xpv1.TypedReference{}, crdSeen: map[crd]bool{}, nextID: 1}
	rw.admin = rw.w.Client("admin")
	rw.voc = genVocab(r)
	mk := func(org, name string, n int) *member {
		m := &member{Class: "target", reg: one(r, poolRegistries), org: org}
		if r.IntN(2) == 0 {
			m.Family = "provider-family-" + org
		}
		m.Name = fmt.Sprintf("provider-%s-%s-0123abcd", org, name)
		m.Image = renderImage(r, m.reg, org, "provider-"+name)
		m.CRDs = rw.genCRDs(r, org, n, nil)
		return m
	}
	a := mk("acme", "a", 1+r.IntN(3))
	rw.target = a
	rw.members = append(rw.members, a)
	b := mk(otherThan(r, poolOrgs, "acme"), "b", 1+r.IntN(3))
	rw.members = append(rw.members, b)
	allow, q := genPairWith(r, rw.voc)
	if err := rw.admin.Create(ctx, &rbacv1.ClusterRole{ObjectMeta: metav1.ObjectMeta{Name: allowRoleName}, Rules: copyRules(allow)}); err != nil {
		panic(err)
	}
	rw.createRevision(r, a, q, false)
	rw.createRevision(r, b, nil, false)

	newRec := func(w *sim.World) (*roles.Reconciler, *sim.Client, *parkValidator) {
		rc := w.Client("rbac-roles")
		pv := &parkValidator{inner: roles.NewClusterRoleBackedValidator(rc, allowRoleName)}
		return roles.NewReconciler(fakeMgr{c: rc}, roles.WithPermissionRequestsValidator(pv), roles.WithOrgDiffer(roles.OrgDiffer{DefaultRegistry: defaultRegistry})), rc, pv
	}
	rec, rc, pv := newRec(rw.w)
	reqOf := func(m *member) reconcile.Request {
		return reconcile.Request{NamespacedName: types.NamespacedName{Name: m.Name}}
	}
	// warm-up with the long-lived reconciler, then both revisions gain a CRD
	for _, m := range []*member{a, b, a} {
		_, _ = rec.Reconcile(ctx, reqOf(m))
	}
	for _, m := range []*member{a, b} {
		c := rw.genCRDs(r, m.org, 1, nil)
		rw.seedCRD(c[0])
		m.CRDs = append(m.CRDs, c[0])
		pr := &pkgv1.ProviderRevision{}
		if err := rw.admin.Get(ctx, types.NamespacedName{Name: m.Name}, pr); err != nil {
			panic(err)
		}
		pr.Status.ObjectRefs = append(pr.Status.ObjectRefs, crdRef(c[0], "v1"))
		if err := rw.admin.Status().Update(ctx, pr); err != nil {
			panic(err)
		}
	}
	rolesOf := func(w *sim.World) map[string]string {
		out := map[string]string{}
		for _, o := range w.ListObjs(sim.Key{Group: "rbac.authorization.k8s.io", Kind: "ClusterRole"}.GK()) {
			out[sim.Str(o, "metadata", "name")] = kit.JSON(o["rules"])
		}
		return out
	}
	// reference: sequential A;B on a copy, with a reconciler of its own
	ref := rw.w.Clone()
	refRec, refC, _ := newRec(ref)
	_, _ = refRec.Reconcile(ctx, reqOf(a))
	callsA := refC.Calls()
	_, _ = refRec.Reconcile(ctx, reqOf(b))
	want := rolesOf(ref)

	base := rw.w
	parkedRuns := 0
	for k := -1; k <= callsA; k++ {
		// the long-lived reconciler is bound to this world: the preemption points run one after
		// another on it and the cluster is put back between them
		snap := base.Clone()
		var n atomic.Int32
		var armed atomic.Bool
		armed.Store(true)
		parked, resume, done := make(chan struct{}), make(chan struct{}), make(chan struct{})
		park := func() {
			if armed.CompareAndSwap(true, false) {
				parked <- struct{}{}
				<-resume
			}
		}
		if k < 0 {
			pv.onValidate = park
		} else {
			kk := int32(k)
			rc.OnCall = func(int, string) {
				if armed.Load() && n.Add(1)-1 == kk {
					park()
				}
			}
		}
		go func() {
			defer close(done)
			_, _ = rec.Reconcile(ctx, reqOf(a))
		}()
		didPark := false
		select {
		case <-parked:
			didPark = true
			_, _ = rec.Reconcile(ctx, reqOf(b))
			close(resume)
			<-done
		case <-done:
			armed.Store(false) // A finished before reaching the preemption point
			_, _ = rec.Reconcile(ctx, reqOf(b))
		}
		rc.OnCall, pv.onValidate = nil, nil
		if didPark {
			parkedRuns++
		}
		got := rolesOf(base)
		var names []string
		for nme := range want {
			names = append(names, nme)
		}
		for nme := range got {
			if _, ok := want[nme]; !ok {
				names = append(names, nme)
			}
		}
		sort.Strings(names)
		for _, nme := range names {
			if got[nme] != want[nme] {
				at := fmt.Sprintf("API call %d", k)
				if k < 0 {
					at = "its permission-request validation"
				}
				res.violate("interleaved-reconciles-change-granted-rules", fmt.Sprintf("reconcile of %s parked before %s while %s was reconciled: ClusterRole %s differs from the sequential run (got %s, sequential %s)", a.Name, at, b.Name, nme, got[nme], want[nme]),
					map[string]any{"A": a, "B": b, "preempted_before": at, "role": nme, "interleaved": got[nme], "sequential": want[nme]})
				break
			}
		}
		// put the cluster back for the next preemption point
		base.Restore(snap)
	}
	res.count("p5_cases", 1)
	res.count("p5_preemption_points", callsA+2)
	res.count("p5_runs_that_parked", parkedRuns)
	res.fp = kit.JSON([]any{"interleave", a, b, allow, q})
	res.nt = parkedRuns > 0
	return res
}

// parkValidator lets the harness stall a reconcile inside the validator.
type parkValidator struct {
	inner      roles.PermissionRequestsValidator
	onValidate func()
}

func (p *parkValidator) ValidatePermissionRequests(c context.Context, requested ...rbacv1.PolicyRule) ([]roles.Rule, error) {
	if f := p.onValidate; f != nil {
		f()
	}
	return p.inner.ValidatePermissionRequests(c, requested...)
}
