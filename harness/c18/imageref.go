//go:build verif

package main

// Independent reference parser for OCI image references (Docker/OCI reference grammar:
// [registry[:port]/]path[:tag][@digest]; the first component is a registry host iff it
// contains "." or ":"; "docker.io" is an alias of "index.docker.io"). The organisation is the
// first segment of the repository path.

import "strings"

const defaultRegistry = "xpkg.crossplane.io"

func parseImage(ref, defReg string) (registry, org string, ok bool) {
	if ref == "" {
		return "", "", false
	}
	if i := strings.Index(ref, "@"); i >= 0 {
		ref = ref[:i]
	}
	if i := strings.LastIndex(ref, ":"); i >= 0 && i > strings.LastIndex(ref, "/") {
		ref = ref[:i]
	}
	registry = defReg
	if first, rest, has := strings.Cut(ref, "/"); has && (strings.ContainsAny(first, ".:")) {
		registry, ref = first, rest
	}
	if registry == "docker.io" {
		registry = "index.docker.io"
	}
	if ref == "" {
		return "", "", false
	}
	org, _, _ = strings.Cut(ref, "/")
	return registry, org, true
}

// sameOrg is deliberately only used in the permissive direction: a member counts as
// legitimate family when registry and organisation are equal.
func sameOrg(a, b string) bool {
	ra, oa, ok1 := parseImage(a, defaultRegistry)
	rb, ob, ok2 := parseImage(b, defaultRegistry)
	return ok1 && ok2 && ra == rb && oa == ob
}
