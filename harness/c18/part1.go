//go:build verif

package main

// Part 1: the real ClusterRoleBackedValidator / Expand / allow tree against Kubernetes'
// semantics on the complete small model of each (allow list, request list) pair.

import (
	"context"
	"fmt"

	rbacv1 "k8s.io/api/rbac/v1"
	kerrors "k8s.io/apimachinery/pkg/api/errors"
	metav1 "k8s.io/apimachinery/pkg/apis/meta/v1"
	"k8s.io/apimachinery/pkg/runtime/schema"
	"sigs.k8s.io/controller-runtime/pkg/client"

	"github.com/crossplane/crossplane/internal/controller/rbac/provider/roles"
	"github.com/crossplane/crossplane/verifh/kit"
)

const allowRoleName = "crossplane:allowed-provider-permissions"

// roleClient serves exactly one ClusterRole (part 1 needs no API server behaviour).
type roleClient struct {
	client.Client
	cr *rbacv1.ClusterRole
}

func (c *roleClient) Get(_ context.Context, key client.ObjectKey, obj client.Object, _ ...client.GetOption) error {
	out, ok := obj.(*rbacv1.ClusterRole)
	if !ok || c.cr == nil || key.Name != c.cr.Name {
		return kerrors.NewNotFound(schema.GroupResource{Group: "rbac.authorization.k8s.io", Resource: "clusterroles"}, key.Name)
	}
	c.cr.DeepCopyInto(out)
	return nil
}

func copyRules(rs []rbacv1.PolicyRule) []rbacv1.PolicyRule {
	if rs == nil {
		return nil
	}
	out := make([]rbacv1.PolicyRule, len(rs))
	for i := range rs {
		out[i] = *rs[i].DeepCopy()
	}
	return out
}

// fromRepoRule converts a granular rule reported by the code under test into the oracle's
// representation. The repo writes "any name" as "*"; the generator never emits that name.
func fromRepoRule(r roles.Rule) granular {
	if r.NonResourceURL != "" {
		return granular{URL: true, Path: r.NonResourceURL, Verb: r.Verb}
	}
	g := granular{Group: r.APIGroup, Res: r.Resource, Verb: r.Verb}
	if r.ResourceName == star {
		g.AnyName = true
	} else {
		g.Name = r.ResourceName
	}
	return g
}

// gridRules is the complete set of single-token rules over a tiny vocabulary; all ordered
// pairs of them are checked in both tiers.
func gridRules() [][]rbacv1.PolicyRule {
	var out [][]rbacv1.PolicyRule
	for _, g := range []string{"", "example.org", star} {
		for _, res := range []string{"pods", "pods/status", "*/status", star} {
			for _, names := range [][]string{nil, {"foo"}, {"bar"}} {
				for _, v := range []string{"get", "update", star} {
					out = append(out, []rbacv1.PolicyRule{{APIGroups: []string{g}, Resources: []string{res}, ResourceNames: names, Verbs: []string{v}}})
				}
			}
		}
	}
	for _, u := range []string{"/api", "/api/*", "/api/v1", star} {
		for _, v := range []string{"get", "post", star} {
			out = append(out, []rbacv1.PolicyRule{{NonResourceURLs: []string{u}, Verbs: []string{v}}})
		}
	}
	// degenerate lists
	out = append(out,
		nil,
		[]rbacv1.PolicyRule{{APIGroups: []string{""}, Resources: []string{"pods"}}},            // no verbs
		[]rbacv1.PolicyRule{{APIGroups: []string{""}, Verbs: []string{"get"}}},                 // no resources
		[]rbacv1.PolicyRule{{Resources: []string{"pods"}, Verbs: []string{"get"}}},             // no groups
		[]rbacv1.PolicyRule{{APIGroups: []string{}, Resources: []string{}, Verbs: []string{}}}, // empty lists
		[]rbacv1.PolicyRule{{NonResourceURLs: []string{"/api"}}},                               // URL without verbs
	)
	return out
}

func pairCase(stream string, a, q []rbacv1.PolicyRule) *result {
	res := newResult()
	res.fp = kit.JSON([]any{a, q})
	res.nt = hasWildcardOrNameOrURL(a) || hasWildcardOrNameOrURL(q)

	// the code under test gets its own copies
	cl := &roleClient{cr: &rbacv1.ClusterRole{ObjectMeta: metav1.ObjectMeta{Name: allowRoleName}, Rules: copyRules(a)}}
	v := roles.NewClusterRoleBackedValidator(cl, allowRoleName)
	var rejected, expanded []roles.Rule
	var verr, xerr error
	if perr := kit.Try(func() { rejected, verr = v.ValidatePermissionRequests(ctx, copyRules(q)...) }); perr != nil {
		res.count("p1_validator_panics", 1)
		return res // a crash grants nothing
	}
	if verr != nil {
		res.count("p1_validator_errors", 1)
		return res // an error grants nothing
	}
	if perr := kit.Try(func() { expanded, xerr = roles.Expand(ctx, copyRules(q)...) }); perr != nil || xerr != nil {
		res.count("p1_expand_errors", 1)
		expanded = nil
	}
	expRules := make([]rbacv1.PolicyRule, 0, len(expanded))
	for _, e := range expanded {
		expRules = append(expRules, fromRepoRule(e).rule())
	}

	rej := map[granular]bool{}
	for _, r := range rejected {
		rej[fromRepoRule(r)] = true
	}
	grans := expandOracle(q)
	gr := make([]rbacv1.PolicyRule, len(grans))
	nAcc := 0
	for i, g := range grans {
		gr[i] = g.rule()
		if !rej[g] {
			nAcc++
		}
	}
	res.count("p1_rules_accepted", nAcc)
	res.count("p1_rules_rejected", len(grans)-nAcc)
	known := map[granular]bool{}
	for _, g := range grans {
		known[g] = true
	}
	for g := range rej {
		if !known[g] {
			res.count("p1_rejected_rules_not_in_oracle_expansion", 1) // harmless: extra rejection
		}
	}

	u := buildUniverse(a, q)
	res.count("p1_universe_total", u.size())
	res.count("p1_universe_max", u.size())
	qAllowed, escapes := 0, 0
	u.each(func(x *creq) bool {
		if !rulesAllow(q, x) {
			return true
		}
		qAllowed++
		if xerr == nil && !rulesAllow(expRules, x) {
			res.violate("expand-loses-requested-permission",
				fmt.Sprintf("Expand(%s) yields no granular rule covering the concrete request %s that the request list grants; it would be granted unvalidated", kit.JSON(q), kit.JSON(x)),
				map[string]any{"allow": a, "requests": q, "concrete_request": *x, "expanded": expanded})
		}
		if rulesAllow(a, x) {
			return true
		}
		escapes++
		// x is requested but not allowed: every granular requested rule that grants it
		// must have been rejected.
		for i, g := range grans {
			if rej[g] || !ruleAllows(&gr[i], x) {
				continue
			}
			res.violate("validator-accepts-rule-beyond-allowlist/"+g.wildClass(),
				fmt.Sprintf("requested rule %s was not rejected although it grants %s which the allow list %s does not", kit.JSON(gr[i]), kit.JSON(x), kit.JSON(a)),
				map[string]any{"allow": a, "requests": q, "accepted_rule": gr[i], "concrete_request": *x, "rejected": rejected})
		}
		return true
	})
	res.count("p1_requests_granted_by_q_total", qAllowed)

	pfx := "p1_" + stream + "s_"
	switch {
	case qAllowed == 0:
		res.count(pfx+"request_grants_nothing", 1)
	case len(rejected) == 0 && escapes == 0:
		res.count(pfx+"accepted_covered", 1)
		res.count("p1_pairs_accepted_covered_nonempty", 1)
	case len(rejected) > 0 && escapes > 0:
		res.count(pfx+"rejected_uncovered", 1)
	case len(rejected) > 0 && escapes == 0:
		res.count(pfx+"overrejected_quiet", 1)
	default:
		res.count(pfx+"accepted_uncovered", 1)
	}
	if nAcc > 0 && len(rejected) > 0 {
		res.count(pfx+"partially_rejected", 1)
	}
	if stream == "pair" && res.nt && len(rejected) == 0 && qAllowed > 0 {
		res.sample = map[string]any{"allow": a, "requests": q, "universe": u.size(), "granted_by_requests": qAllowed, "rejected": len(rejected)}
	}
	return res
}
