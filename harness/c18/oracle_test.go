//go:build verif

package main

import (
	"testing"

	rbacv1 "k8s.io/api/rbac/v1"
)

// Pins the oracle to the documented Kubernetes RBAC semantics and the reference parser to
// the documented image reference grammar.
func TestOracleSemantics(t *testing.T) {
	rule := func(g, r, n, v []string) rbacv1.PolicyRule {
		return rbacv1.PolicyRule{APIGroups: g, Resources: r, ResourceNames: n, Verbs: v}
	}
	url := func(u, v []string) rbacv1.PolicyRule { return rbacv1.PolicyRule{NonResourceURLs: u, Verbs: v} }
	s := func(x ...string) []string { return x }
	for _, c := range []struct {
		name string
		r    rbacv1.PolicyRule
		x    creq
		want bool
	}{
		{"exact", rule(s(""), s("pods"), nil, s("get")), creq{Verb: "get", Res: "pods"}, true},
		{"other verb", rule(s(""), s("pods"), nil, s("get")), creq{Verb: "list", Res: "pods"}, false},
		{"verb star", rule(s(""), s("pods"), nil, s("*")), creq{Verb: "list", Res: "pods"}, true},
		{"group star", rule(s("*"), s("pods"), nil, s("get")), creq{Verb: "get", Group: "apps", Res: "pods"}, true},
		{"resource does not cover subresource", rule(s(""), s("pods"), nil, s("get")), creq{Verb: "get", Res: "pods", Sub: "status"}, false},
		{"subresource", rule(s(""), s("pods/status"), nil, s("get")), creq{Verb: "get", Res: "pods", Sub: "status"}, true},
		{"star covers subresource", rule(s(""), s("*"), nil, s("get")), creq{Verb: "get", Res: "pods", Sub: "status"}, true},
		{"*/sub", rule(s(""), s("*/status"), nil, s("get")), creq{Verb: "get", Res: "pods", Sub: "status"}, true},
		{"*/sub not other sub", rule(s(""), s("*/status"), nil, s("get")), creq{Verb: "get", Res: "pods", Sub: "scale"}, false},
		{"*/sub not plain", rule(s(""), s("*/status"), nil, s("get")), creq{Verb: "get", Res: "pods"}, false},
		{"no names = all", rule(s(""), s("pods"), nil, s("get")), creq{Verb: "get", Res: "pods", Name: "x"}, true},
		{"name", rule(s(""), s("pods"), s("x"), s("get")), creq{Verb: "get", Res: "pods", Name: "x"}, true},
		{"other name", rule(s(""), s("pods"), s("x"), s("get")), creq{Verb: "get", Res: "pods", Name: "y"}, false},
		{"named rule does not cover nameless request", rule(s(""), s("pods"), s("x"), s("list")), creq{Verb: "list", Res: "pods"}, false},
		{"no name wildcard", rule(s(""), s("pods"), s("*"), s("get")), creq{Verb: "get", Res: "pods", Name: "y"}, false},
		{"empty verbs", rule(s(""), s("pods"), nil, nil), creq{Verb: "get", Res: "pods"}, false},
		{"empty groups", rule(nil, s("pods"), nil, s("get")), creq{Verb: "get", Res: "pods"}, false},
		{"url exact", url(s("/api"), s("get")), creq{URL: true, Verb: "get", Path: "/api"}, true},
		{"url exact is no prefix", url(s("/api"), s("get")), creq{URL: true, Verb: "get", Path: "/api/v1"}, false},
		{"url prefix", url(s("/api/*"), s("get")), creq{URL: true, Verb: "get", Path: "/api/v1"}, true},
		{"url prefix other", url(s("/api/*"), s("get")), creq{URL: true, Verb: "get", Path: "/apis"}, false},
		{"url star", url(s("*"), s("get")), creq{URL: true, Verb: "get", Path: "/x"}, true},
		{"url rule no resource", url(s("*"), s("*")), creq{Verb: "get", Res: "pods"}, false},
		{"resource rule no url", rule(s("*"), s("*"), nil, s("*")), creq{URL: true, Verb: "get", Path: "/x"}, false},
	} {
		if got := ruleAllows(&c.r, &c.x); got != c.want {
			t.Errorf("%s: got %v want %v", c.name, got, c.want)
		}
	}
	// the universe distinguishes a prefix rule from a longer prefix rule
	a := []rbacv1.PolicyRule{url(s("/api/v1/*"), s("get"))}
	q := []rbacv1.PolicyRule{url(s("/api/*"), s("get"))}
	if esc, _ := firstEscape(buildUniverse(a, q), q, a); esc == nil {
		t.Error("prefix /api/* must escape /api/v1/*")
	}
	if esc, _ := firstEscape(buildUniverse(a, q), a, q); esc != nil {
		t.Errorf("/api/v1/* is within /api/*: %v", esc)
	}
}

func TestParseImage(t *testing.T) {
	for _, c := range []struct{ ref, reg, org string }{
		{"acme/provider-x:v1", defaultRegistry, "acme"},
		{"xpkg.crossplane.io/acme/provider-x", defaultRegistry, "acme"},
		{"xpkg.upbound.io/acme/sub/provider-x:v1.2.3", "xpkg.upbound.io", "acme"},
		{"registry.example.com:5000/acme/p@sha256:abc", "registry.example.com:5000", "acme"},
		{"registry.example.com:5000/acme/p:v1@sha256:abc", "registry.example.com:5000", "acme"},
		{"docker.io/acme/p", "index.docker.io", "acme"},
		{"index.docker.io/acme/p:v2", "index.docker.io", "acme"},
	} {
		reg, org, ok := parseImage(c.ref, defaultRegistry)
		if !ok || reg != c.reg || org != c.org {
			t.Errorf("%s: got %q %q %v", c.ref, reg, org, ok)
		}
	}
}
