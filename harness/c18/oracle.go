//go:build verif

package main

// The independent oracle: Kubernetes' documented RBAC rule semantics evaluated on concrete
// requests (k8s.io/kubernetes plugin/pkg/auth/authorizer/rbac RuleAllows and the helpers
// VerbMatches / APIGroupMatches / ResourceMatches / ResourceNameMatches /
// NonResourceURLMatches as documented in
// https://kubernetes.io/docs/reference/access-authn-authz/rbac/). Nothing here calls into
// /repo.

import (
	"sort"
	"strings"

	rbacv1 "k8s.io/api/rbac/v1"
)

const star = "*"

// creq is one concrete authorisation request.
type creq struct {
	URL   bool   `json:"url,omitempty"`
	Verb  string `json:"verb"`
	Group string `json:"group"`
	Res   string `json:"resource,omitempty"`
	Sub   string `json:"subresource,omitempty"`
	Name  string `json:"name,omitempty"`
	Path  string `json:"path,omitempty"`
}

func verbMatches(r *rbacv1.PolicyRule, verb string) bool {
	for _, v := range r.Verbs {
		if v == star || v == verb {
			return true
		}
	}
	return false
}

func groupMatches(r *rbacv1.PolicyRule, g string) bool {
	for _, rg := range r.APIGroups {
		if rg == star || rg == g {
			return true
		}
	}
	return false
}

func resourceMatches(r *rbacv1.PolicyRule, res, sub string) bool {
	combined := res
	if sub != "" {
		combined = res + "/" + sub
	}
	for _, rr := range r.Resources {
		if rr == star || rr == combined {
			return true
		}
		if sub == "" {
			continue
		}
		// "*/subresource" matches that subresource of every resource
		if len(rr) == len(sub)+2 && strings.HasPrefix(rr, "*/") && strings.HasSuffix(rr, sub) {
			return true
		}
	}
	return false
}

func nameMatches(r *rbacv1.PolicyRule, name string) bool {
	if len(r.ResourceNames) == 0 {
		return true // no names = all names; there is no name wildcard
	}
	for _, n := range r.ResourceNames {
		if n == name {
			return true
		}
	}
	return false
}

func urlMatches(r *rbacv1.PolicyRule, path string) bool {
	for _, u := range r.NonResourceURLs {
		if u == star || u == path {
			return true
		}
		if strings.HasSuffix(u, star) && strings.HasPrefix(path, strings.TrimRight(u, star)) {
			return true
		}
	}
	return false
}

// ruleAllows is Kubernetes' RuleAllows.
func ruleAllows(r *rbacv1.PolicyRule, x *creq) bool {
	if !verbMatches(r, x.Verb) {
		return false
	}
	if x.URL {
		return urlMatches(r, x.Path)
	}
	return groupMatches(r, x.Group) && resourceMatches(r, x.Res, x.Sub) && nameMatches(r, x.Name)
}

func rulesAllow(rs []rbacv1.PolicyRule, x *creq) bool {
	for i := range rs {
		if ruleAllows(&rs[i], x) {
			return true
		}
	}
	return false
}

// Fresh tokens: one per dimension, built from a character ("~") that no generator emits, so
// they are different from every token of the pair and no URL prefix rule other than a
// prefix of everything can cover the fresh path.
const (
	freshVerb  = "~verb"
	freshGroup = "~group.example"
	freshRes   = "~res"
	freshSub   = "~sub"
	freshName  = "~name"
	freshURL   = "~fresh"
)

// universe is the complete small model for a set of rule lists: every concrete request that
// can be built from the tokens occurring in the rules plus one fresh token per dimension.
// Matching only ever compares tokens for equality (or a URL against a literal prefix), so if
// any concrete request distinguishes two rule sets, one in this universe does.
type universe struct {
	Verbs, Groups, Bases, Subs, Names, Paths []string
}

func setOf(m map[string]struct{}) []string {
	out := make([]string, 0, len(m))
	for k := range m {
		out = append(out, k)
	}
	sort.Strings(out)
	return out
}

func buildUniverse(lists ...[]rbacv1.PolicyRule) *universe {
	verbs, groups, bases, subs, names, paths := map[string]struct{}{}, map[string]struct{}{}, map[string]struct{}{}, map[string]struct{}{}, map[string]struct{}{}, map[string]struct{}{}
	verbs[freshVerb] = struct{}{}
	groups[freshGroup] = struct{}{}
	bases[freshRes] = struct{}{}
	subs[""] = struct{}{}
	subs[freshSub] = struct{}{}
	names[""] = struct{}{} // list/create style requests carry no name
	names[freshName] = struct{}{}
	paths["/"+freshURL] = struct{}{}
	for _, rs := range lists {
		for _, r := range rs {
			for _, v := range r.Verbs {
				if v != star {
					verbs[v] = struct{}{}
				}
			}
			for _, g := range r.APIGroups {
				if g != star {
					groups[g] = struct{}{}
				}
			}
			for _, t := range r.Resources {
				if t == star {
					continue
				}
				b, s, has := strings.Cut(t, "/")
				if b != star {
					bases[b] = struct{}{}
				}
				if has {
					subs[s] = struct{}{}
				}
			}
			for _, n := range r.ResourceNames {
				names[n] = struct{}{}
			}
			for _, u := range r.NonResourceURLs {
				if u == star {
					continue
				}
				if strings.HasSuffix(u, star) {
					p := strings.TrimRight(u, star)
					paths[p] = struct{}{}
					paths[p+freshURL] = struct{}{}
					continue
				}
				paths[u] = struct{}{}
			}
		}
	}
	return &universe{setOf(verbs), setOf(groups), setOf(bases), setOf(subs), setOf(names), setOf(paths)}
}

func (u *universe) size() int {
	return len(u.Verbs)*len(u.Groups)*len(u.Bases)*len(u.Subs)*len(u.Names) + len(u.Verbs)*len(u.Paths)
}

// each enumerates the universe completely; f returns false to stop.
func (u *universe) each(f func(x *creq) bool) {
	var x creq
	for _, v := range u.Verbs {
		x = creq{Verb: v}
		for _, g := range u.Groups {
			x.Group = g
			for _, b := range u.Bases {
				x.Res = b
				for _, s := range u.Subs {
					x.Sub = s
					for _, n := range u.Names {
						x.Name = n
						if !f(&x) {
							return
						}
					}
				}
			}
		}
		x = creq{URL: true, Verb: v}
		for _, p := range u.Paths {
			x.Path = p
			if !f(&x) {
				return
			}
		}
	}
}

// firstEscape returns a concrete request allowed by sub but not by super (nil if sub ⊆ super
// on the whole universe) and the number of requests sub allows.
func firstEscape(u *universe, sub, super []rbacv1.PolicyRule) (esc *creq, allowed int) {
	u.each(func(x *creq) bool {
		if !rulesAllow(sub, x) {
			return true
		}
		allowed++
		if esc == nil && !rulesAllow(super, x) {
			c := *x
			esc = &c
		}
		return true
	})
	return esc, allowed
}

// granular is one single-token rule of a request list, as obtained by the oracle's own
// expansion (cross product of the rule's lists; an empty resourceNames list = any name).
type granular struct {
	URL     bool
	Group   string
	Res     string
	Name    string
	AnyName bool
	Path    string
	Verb    string
}

func (g granular) rule() rbacv1.PolicyRule {
	if g.URL {
		return rbacv1.PolicyRule{NonResourceURLs: []string{g.Path}, Verbs: []string{g.Verb}}
	}
	r := rbacv1.PolicyRule{APIGroups: []string{g.Group}, Resources: []string{g.Res}, Verbs: []string{g.Verb}}
	if !g.AnyName {
		r.ResourceNames = []string{g.Name}
	}
	return r
}

// wildClass is the coarse class of a granular requested rule, used in violation keys: kind
// of rule, and whether it carries a wildcard token, covers all names, or is fully specific.
func (g granular) wildClass() string {
	if g.URL {
		if strings.HasSuffix(g.Path, star) || g.Verb == star {
			return "url+wildcard-request"
		}
		return "url+specific-request"
	}
	switch {
	case g.Group == star || g.Verb == star || g.Res == star || strings.HasPrefix(g.Res, "*/"):
		return "resource+wildcard-request"
	case g.AnyName:
		return "resource+allnames-request"
	}
	return "resource+named-request"
}

func expandOracle(rs []rbacv1.PolicyRule) []granular {
	var out []granular
	seen := map[granular]bool{}
	add := func(g granular) {
		if !seen[g] {
			seen[g] = true
			out = append(out, g)
		}
	}
	for _, r := range rs {
		for _, v := range r.Verbs {
			for _, u := range r.NonResourceURLs {
				add(granular{URL: true, Path: u, Verb: v})
			}
			for _, g := range r.APIGroups {
				for _, rr := range r.Resources {
					if len(r.ResourceNames) == 0 {
						add(granular{Group: g, Res: rr, AnyName: true, Verb: v})
						continue
					}
					for _, n := range r.ResourceNames {
						add(granular{Group: g, Res: rr, Name: n, Verb: v})
					}
				}
			}
		}
	}
	return out
}
