//go:build verif

// C07: claim and XR exchange exactly the fields each side owns.
// Generated claims and XR pre-states are synced by the production-wired claim reconciler
// (both syncers) over the simulated API server; the resulting stored XR and claim are compared
// field by field with a partition written from the property statement.
package main

import (
	"context"
	"fmt"
	"math/rand/v2"
	"reflect"
	"sort"
	"strings"
	"sync"

	"k8s.io/apimachinery/pkg/apis/meta/v1/unstructured"
	"k8s.io/apimachinery/pkg/runtime"
	"k8s.io/apimachinery/pkg/runtime/schema"

	"github.com/crossplane/crossplane/verifh/kit"
	"github.com/crossplane/crossplane/verifh/sim"
	"github.com/crossplane/crossplane/verifh/xrk"
)

const xrdName = "xthings.ex.org"

// The partition, written from the property statement (not derived from internal/xcrd).
var (
	// composition selection fields: propagate claim -> XR
	selectionFields = []string{"compositionRef", "compositionSelector", "compositionUpdatePolicy", "compositionRevisionSelector"}
	// claim-only machinery: never reaches the XR
	claimOnly = []string{"resourceRef", "compositeDeletePolicy"}
	// connection secret settings exist on both sides with different meaning: never copied
	connFields = []string{"writeConnectionSecretToRef", "publishConnectionDetailsTo"}
	// XR-side machinery the claim sync must preserve
	xrOwned = []string{"resourceRefs", "writeConnectionSecretToRef", "publishConnectionDetailsTo"}
	// XR status bookkeeping: never copied to the claim
	statusMachinery = []string{"conditions", "connectionDetails", "claimConditionTypes"}
	allMachinery    = map[string]bool{"compositionRef": true, "compositionSelector": true, "compositionRevisionRef": true, "compositionRevisionSelector": true,
		"compositionUpdatePolicy": true, "compositeDeletePolicy": true, "resourceRef": true, "resourceRefs": true, "claimRef": true,
		"writeConnectionSecretToRef": true, "publishConnectionDetailsTo": true}
)

var userKeys = []string{"size", "region", "params", "tags", "nested", "enabled", "ratio"}
var nestedKeyPool = []string{"resourceRef", "claimRef", "resourceRefs", "compositionRef", "conditions", "writeConnectionSecretToRef", "x", "y", "deep"}

func genValue(r *rand.Rand, depth int) any {
	switch n := r.IntN(7); {
	case n == 0:
		if r.IntN(4) == 0 {
			// 64-bit integers no float64 holds exactly (ids, quotas, MaxInt64 sentinels)
			return []int64{9007199254740993, 9223372036854775807, -9007199254740995, 1 << 62}[r.IntN(4)] - int64(r.IntN(2))*2
		}
		return int64(r.IntN(100))
	case n == 1:
		return fmt.Sprintf("s%d", r.IntN(50))
	case n == 2:
		return r.IntN(2) == 0
	case n == 3:
		return float64(r.IntN(100)) + 0.5
	case n == 4 && depth < 3:
		l := []any{}
		for i := 0; i < r.IntN(3); i++ {
			l = append(l, genValue(r, depth+1))
		}
		return l
	case depth < 3:
		m := map[string]any{}
		for i := 0; i < 1+r.IntN(3); i++ {
			m[nestedKeyPool[r.IntN(len(nestedKeyPool))]] = genValue(r, depth+1)
		}
		return m
	}
	return "leaf"
}

// the last three are NOT reserved: their prefix merely ends in the letters of a reserved domain
// (no dot boundary), or they have no prefix at all
var labelKeys = []string{"team", "env", "example.org/tier", "acme.io/owner", "cluster.x-k8s.io/cluster-name", "notkubernetes.io/tier", "myk8s.io"}

// the last four sit two or more DNS labels below a reserved domain (real Kubernetes keys)
var reservedKeys = []string{"kubernetes.io/role", "app.kubernetes.io/name", "k8s.io/thing", "foo.k8s.io/bar", "kubectl.kubernetes.io/last-applied-configuration",
	"failure-domain.beta.kubernetes.io/zone", "volume.beta.kubernetes.io/storage-class", "rbac.authorization.k8s.io/aggregate-to-admin", "node.alpha.kubernetes.io/ttl"}

func isReserved(k string) bool {
	d, _, prefixed := strings.Cut(k, "/")
	if !prefixed {
		return false // a key without prefix is private to the user
	}
	return d == "kubernetes.io" || strings.HasSuffix(d, ".kubernetes.io") || d == "k8s.io" || strings.HasSuffix(d, ".k8s.io")
}

type tcase struct {
	SSA        bool           `json:"ssa"`
	ExistingXR bool           `json:"existingXR"`
	Claim      map[string]any `json:"claim"`
	XR         map[string]any `json:"xr,omitempty"`
	Edit       map[string]any `json:"edit,omitempty"` // user edit of claim spec before the re-sync
	XRStatus2  map[string]any `json:"xrStatus2,omitempty"`
}

func genMeta(r *rand.Rand, o map[string]any) {
	ls, as := map[string]any{}, map[string]any{}
	for _, k := range labelKeys {
		if r.IntN(2) == 0 {
			ls[k] = fmt.Sprintf("l%d", r.IntN(9))
		}
	}
	for _, k := range reservedKeys[:4] {
		if r.IntN(3) == 0 {
			ls[k] = "reserved"
		}
	}
	for _, k := range labelKeys {
		if r.IntN(3) == 0 {
			as[k] = fmt.Sprintf("a%d", r.IntN(9))
		}
	}
	for _, k := range reservedKeys {
		if r.IntN(3) == 0 {
			as[k] = "reserved"
		}
	}
	md := o["metadata"].(map[string]any)
	if len(ls) > 0 {
		md["labels"] = ls
	}
	if len(as) > 0 {
		md["annotations"] = as
	}
}

func genCase(c *kit.Ctx, i int) tcase {
	r := c.Rng("case", i)
	t := tcase{SSA: i%2 == 1, ExistingXR: r.IntN(3) > 0}
	spec := map[string]any{}
	for _, k := range userKeys {
		if r.IntN(2) == 0 {
			spec[k] = genValue(r, 0)
		}
	}
	spec["nested"] = map[string]any{"resourceRef": map[string]any{"name": "user-data"}, "claimRef": genValue(r, 2), "conditions": []any{"user"}}
	if r.IntN(2) == 0 {
		spec["compositionRef"] = map[string]any{"name": "comp"}
	}
	if r.IntN(3) == 0 {
		spec["compositionSelector"] = map[string]any{"matchLabels": map[string]any{"tier": "gold"}}
	}
	switch r.IntN(3) {
	case 1:
		spec["compositionUpdatePolicy"] = "Manual"
	case 2:
		spec["compositionUpdatePolicy"] = "Automatic"
	}
	if r.IntN(3) == 0 {
		spec["compositionRevisionSelector"] = map[string]any{"matchLabels": map[string]any{"channel": "stable"}}
	}
	if r.IntN(3) == 0 {
		spec["compositionRevisionRef"] = map[string]any{"name": "comp-claimrev"}
	}
	if r.IntN(2) == 0 {
		spec["compositeDeletePolicy"] = []string{"Background", "Foreground"}[r.IntN(2)]
	}
	if r.IntN(2) == 0 {
		spec["writeConnectionSecretToRef"] = map[string]any{"name": "claim-secret"}
	}
	if r.IntN(4) == 0 {
		spec["publishConnectionDetailsTo"] = map[string]any{"name": "claim-published"}
	}
	t.Claim = xrk.ClaimObject("ex.org/v1", "Thing", "ns1", "c1", spec)
	genMeta(r, t.Claim)
	if r.IntN(3) == 0 {
		t.Claim["metadata"].(map[string]any)["annotations"] = withKV(t.Claim["metadata"].(map[string]any)["annotations"], "crossplane.io/external-name", "claim-ext")
	}
	if t.ExistingXR {
		xs := map[string]any{
			"claimRef": map[string]any{"apiVersion": "ex.org/v1", "kind": "Thing", "namespace": "ns1", "name": "c1"},
		}
		if r.IntN(2) == 0 {
			xs["resourceRefs"] = []any{map[string]any{"apiVersion": "nop.ex.org/v1", "kind": "NopA", "name": "composed-1"}}
		}
		if r.IntN(2) == 0 {
			xs["writeConnectionSecretToRef"] = map[string]any{"name": "xr-secret", "namespace": "crossplane-system"}
		}
		if r.IntN(2) == 0 {
			xs["compositionRef"] = map[string]any{"name": "comp-from-xr"}
		}
		if r.IntN(2) == 0 {
			xs["compositionRevisionRef"] = map[string]any{"name": "comp-xrrev"}
		}
		if r.IntN(4) == 0 {
			xs["compositionSelector"] = map[string]any{"matchLabels": map[string]any{"tier": "xr-side"}}
		}
		if r.IntN(4) == 0 {
			xs["compositionRevisionSelector"] = map[string]any{"matchLabels": map[string]any{"channel": "xr-side"}}
		}
		if r.IntN(2) == 0 {
			// a user-visible spec field only the XR side has (late-initialised, ToComposite patch)
			xs["xrLateInit"] = genValue(r, 1)
		}
		switch r.IntN(3) {
		case 1:
			xs["compositionUpdatePolicy"] = "Manual"
		case 2:
			xs["compositionUpdatePolicy"] = "Automatic"
		}
		t.XR = map[string]any{"apiVersion": "ex.org/v1", "kind": "XThing", "metadata": map[string]any{"name": "static-xr",
			"labels": map[string]any{"crossplane.io/claim-name": "c1", "crossplane.io/claim-namespace": "ns1"}}, "spec": xs}
		if r.IntN(2) == 0 {
			t.XR["metadata"].(map[string]any)["annotations"] = map[string]any{"crossplane.io/external-name": "xr-ext"}
		}
		t.XR["status"] = genXRStatus(r)
		t.Claim["spec"].(map[string]any)["resourceRef"] = map[string]any{"apiVersion": "ex.org/v1", "kind": "XThing", "name": "static-xr"}
	}
	// re-sync: the user edits the claim, the XR controller updates the XR status
	t.Edit = map[string]any{userKeys[r.IntN(len(userKeys))]: genValue(r, 0)}
	t.XRStatus2 = genXRStatus(r)
	return t
}

func withKV(m any, k, v string) map[string]any {
	mm, _ := m.(map[string]any)
	if mm == nil {
		mm = map[string]any{}
	}
	mm[k] = v
	return mm
}

func genXRStatus(r *rand.Rand) map[string]any {
	st := map[string]any{
		"conditions": []any{
			map[string]any{"type": "Ready", "status": []string{"True", "False"}[r.IntN(2)], "reason": "XRPrivateReason", "lastTransitionTime": "2024-01-01T00:00:00Z"},
			map[string]any{"type": "XRPrivate", "status": "True", "reason": "XROnly", "lastTransitionTime": "2024-01-01T00:00:00Z"},
		},
		"connectionDetails": map[string]any{"lastPublishedTime": "2020-02-02T02:02:02Z"},
	}
	if r.IntN(2) == 0 {
		st["claimConditionTypes"] = []any{"Custom"}
		st["conditions"] = append(st["conditions"].([]any), map[string]any{"type": "Custom", "status": "True", "reason": "FromFunction", "lastTransitionTime": "2024-01-01T00:00:00Z"})
	}
	for _, k := range []string{"endpoint", "observed", "details"} {
		if r.IntN(2) == 0 {
			st[k] = genValue(r, 1)
		}
	}
	return st
}

// covers reports whether got carries everything want says: maps recursively (got may hold
// additional keys - neither syncer is required by the property to remove what was deleted on
// the other side), scalars and lists by equality.
func covers(got, want any) bool {
	wm, ok := want.(map[string]any)
	if !ok {
		return reflect.DeepEqual(got, want)
	}
	gm, ok := got.(map[string]any)
	if !ok {
		return false
	}
	for k, v := range wm {
		if !covers(gm[k], v) {
			return false
		}
	}
	return true
}

func subset(m map[string]any, keys []string) map[string]any {
	out := map[string]any{}
	for _, k := range keys {
		if v, ok := m[k]; ok {
			out[k] = v
		}
	}
	return out
}

func specOf(o map[string]any) map[string]any {
	s, _ := o["spec"].(map[string]any)
	if s == nil {
		s = map[string]any{}
	}
	return s
}

func statusOf(o map[string]any) map[string]any {
	s, _ := o["status"].(map[string]any)
	if s == nil {
		s = map[string]any{}
	}
	return s
}

func strMap(o map[string]any, f string) map[string]string {
	m, _, _ := unstructured.NestedStringMap(o, "metadata", f)
	return m
}

type checker struct {
	c    *kit.Ctx
	name string
	mode string
	t    *tcase
	wit  func() any
}

func (k *checker) fail(key, what string) { k.c.Violate(key+":"+k.mode, k.name, what, k.wit()) }

// check compares the stored objects after a sync with the partition. claimIn is the claim as
// the user last wrote it, xrBefore the XR before this sync (nil if none).
func (k *checker) check(phase string, claimIn, xrBefore, xrAfter, claimAfter map[string]any) {
	cs, xs := specOf(claimIn), specOf(xrAfter)
	// --- claim -> XR ---
	for f, v := range cs {
		if allMachinery[f] {
			continue
		}
		ok := covers(xs[f], v)
		if xrBefore == nil {
			ok = reflect.DeepEqual(xs[f], v) // a new XR holds exactly what the claim says
		}
		if !ok {
			k.fail("claim-user-field-not-propagated", fmt.Sprintf("%s: claim spec.%s=%v but XR spec.%s=%v", phase, f, kit.JSON(v), f, kit.JSON(xs[f])))
		}
	}
	for _, f := range selectionFields {
		if v, ok := cs[f]; ok && !reflect.DeepEqual(xs[f], v) {
			k.fail("selection-field-not-propagated:"+f, fmt.Sprintf("%s: claim spec.%s=%v but XR has %v", phase, f, kit.JSON(v), kit.JSON(xs[f])))
		}
	}
	for _, f := range claimOnly {
		if v, ok := xs[f]; ok {
			k.fail("claim-only-field-reached-xr:"+f, fmt.Sprintf("%s: XR spec.%s=%v", phase, f, kit.JSON(v)))
		}
	}
	var before map[string]any
	if xrBefore != nil {
		before = specOf(xrBefore)
	} else {
		before = map[string]any{}
	}
	for _, f := range xrOwned {
		if !reflect.DeepEqual(xs[f], before[f]) {
			what := "XR-owned field changed by the claim sync"
			if reflect.DeepEqual(xs[f], cs[f]) && cs[f] != nil {
				what = "claim's connection secret setting copied into the XR"
			}
			k.fail("xr-owned-field-not-preserved:"+f, fmt.Sprintf("%s: %s: spec.%s before=%v after=%v (claim has %v)", phase, what, f, kit.JSON(before[f]), kit.JSON(xs[f]), kit.JSON(cs[f])))
		}
	}
	cr, _ := xs["claimRef"].(map[string]any)
	if sim.Str(cr, "name") != "c1" || sim.Str(cr, "namespace") != "ns1" {
		k.fail("claimref-not-this-claim", fmt.Sprintf("%s: XR spec.claimRef=%v", phase, kit.JSON(cr)))
	}
	xl, xa := strMap(xrAfter, "labels"), strMap(xrAfter, "annotations")
	var bl, ba map[string]string
	if xrBefore != nil {
		bl, ba = strMap(xrBefore, "labels"), strMap(xrBefore, "annotations")
	}
	for key, v := range strMap(claimIn, "labels") {
		if isReserved(key) {
			if _, had := bl[key]; !had {
				if _, has := xl[key]; has {
					k.fail("reserved-label-propagated", fmt.Sprintf("%s: reserved label %q reached the XR", phase, key))
				}
			}
		} else if xl[key] != v {
			k.fail("label-not-propagated", fmt.Sprintf("%s: claim label %s=%s, XR has %q", phase, key, v, xl[key]))
		}
	}
	for key, v := range strMap(claimIn, "annotations") {
		if key == "crossplane.io/external-name" {
			continue
		}
		if isReserved(key) {
			if _, had := ba[key]; !had {
				if _, has := xa[key]; has {
					k.fail("reserved-annotation-propagated", fmt.Sprintf("%s: reserved annotation %q reached the XR", phase, key))
				}
			}
		} else if xa[key] != v {
			k.fail("annotation-not-propagated", fmt.Sprintf("%s: claim annotation %s=%s, XR has %q", phase, key, v, xa[key]))
		}
	}
	if en := ba["crossplane.io/external-name"]; en != "" && xa["crossplane.io/external-name"] != en {
		k.fail("existing-external-name-not-preserved", fmt.Sprintf("%s: XR external name was %q, now %q", phase, en, xa["crossplane.io/external-name"]))
	}

	// --- XR -> claim ---
	as, ast := specOf(claimAfter), statusOf(claimAfter)
	xst := statusOf(xrAfter)
	for f, v := range xst {
		isM := false
		for _, mf := range statusMachinery {
			if mf == f {
				isM = true
			}
		}
		if !isM && !covers(ast[f], v) {
			k.fail("xr-user-status-not-propagated", fmt.Sprintf("%s: XR status.%s=%v claim status.%s=%v", phase, f, kit.JSON(v), f, kit.JSON(ast[f])))
		}
	}
	if _, ok := ast["claimConditionTypes"]; ok {
		k.fail("status-bookkeeping-copied:claimConditionTypes", phase+": claim status has claimConditionTypes")
	}
	if cd, ok := ast["connectionDetails"].(map[string]any); ok && sim.Str(cd, "lastPublishedTime") == "2020-02-02T02:02:02Z" {
		k.fail("status-bookkeeping-copied:connectionDetails", phase+": claim status.connectionDetails carries the XR's lastPublishedTime")
	}
	conds, _, _ := unstructured.NestedSlice(claimAfter, "status", "conditions")
	for _, cd := range conds {
		m, _ := cd.(map[string]any)
		if m["type"] == "XRPrivate" || m["reason"] == "XRPrivateReason" {
			k.fail("xr-condition-copied-to-claim", fmt.Sprintf("%s: claim carries XR condition %v", phase, kit.JSON(m)))
		}
	}
	// compositionRef: XR -> claim only when the claim has none
	if v, ok := cs["compositionRef"]; ok {
		if !reflect.DeepEqual(as["compositionRef"], v) {
			k.fail("claim-compositionref-overwritten", fmt.Sprintf("%s: claim had compositionRef %v, now %v", phase, kit.JSON(v), kit.JSON(as["compositionRef"])))
		}
	} else if xv, ok := xs["compositionRef"]; ok && !reflect.DeepEqual(as["compositionRef"], xv) {
		k.fail("xr-compositionref-not-propagated", fmt.Sprintf("%s: XR compositionRef %v, claim has %v", phase, kit.JSON(xv), kit.JSON(as["compositionRef"])))
	}
	// compositionRevisionRef: XR -> claim iff the policy is Automatic
	// (judged only when the policy did not change within this sync: the syncers act on the
	// policy of the XR as they read it)
	pol, _ := xs["compositionUpdatePolicy"].(string)
	if bp, _ := before["compositionUpdatePolicy"].(string); bp != pol {
		pol = ""
	}
	if pol == "Automatic" {
		if xv, ok := xs["compositionRevisionRef"]; ok && !reflect.DeepEqual(as["compositionRevisionRef"], xv) {
			k.fail("automatic-revisionref-not-propagated", fmt.Sprintf("%s: XR revisionRef %v, claim has %v", phase, kit.JSON(xv), kit.JSON(as["compositionRevisionRef"])))
		}
	}
	if pol == "Manual" {
		if cv, ok := cs["compositionRevisionRef"]; ok && !reflect.DeepEqual(as["compositionRevisionRef"], cv) {
			k.fail("manual-revisionref-overwritten-on-claim", fmt.Sprintf("%s: claim revisionRef %v became %v under Manual", phase, kit.JSON(cv), kit.JSON(as["compositionRevisionRef"])))
		}
	}
	// external name XR -> claim
	if en := strMap(xrAfter, "annotations")["crossplane.io/external-name"]; en != "" && strMap(claimAfter, "annotations")["crossplane.io/external-name"] != en {
		k.fail("external-name-not-propagated-to-claim", fmt.Sprintf("%s: XR external name %q, claim has %q", phase, en, strMap(claimAfter, "annotations")["crossplane.io/external-name"]))
	}
	// "only": the claim spec gains nothing but the fields listed in the statement
	allowedNew := map[string]bool{"resourceRef": true, "compositionRef": true, "compositionRevisionRef": true}
	var leaked []string
	for f := range as {
		if _, had := cs[f]; !had && !allowedNew[f] {
			leaked = append(leaked, f)
		}
	}
	sort.Strings(leaked)
	for _, f := range leaked {
		class := f
		if !allMachinery[f] {
			class = "user-field"
		}
		k.fail("xr-spec-field-reached-claim:"+class, fmt.Sprintf("%s: claim spec gained %q from the XR (all gained: %v)", phase, f, leaked))
	}
	for _, f := range []string{"claimRef", "resourceRefs"} {
		if _, ok := as[f]; ok {
			k.fail("xr-only-field-reached-claim:"+f, fmt.Sprintf("%s: claim spec.%s present", phase, f))
		}
	}
	// user fields of the claim are never altered by the sync
	for f, v := range cs {
		if !allMachinery[f] && !reflect.DeepEqual(as[f], v) {
			k.fail("claim-user-field-altered", fmt.Sprintf("%s: claim spec.%s %v -> %v", phase, f, kit.JSON(v), kit.JSON(as[f])))
		}
	}
}

var base *sim.World
var baseOnce sync.Once

func baseWorld() *sim.World {
	baseOnce.Do(func() {
		w := sim.NewWorld(xrk.Scheme(), 7)
		w.MustSeed("user", xrk.XRDObject(xrk.XRDOpts{Group: "ex.org", Kind: "XThing", Plural: "xthings", ClaimKind: "Thing", ClaimPlural: "things"}))
		base = w
	})
	return base.Clone()
}

func runCase(c *kit.Ctx, i int, name string) {
	t := genCase(c, i)
	mode := map[bool]string{false: "csa", true: "ssa"}[t.SSA]
	w := baseWorld()
	ce := xrk.NewClaimEnv(w, xrdName, t.SSA)
	if t.XR != nil {
		w.MustSeedFull("user", runtime.DeepCopyJSON(t.XR))
	}
	w.MustSeed("user", runtime.DeepCopyJSON(t.Claim))
	ckey := sim.Key{Group: "ex.org", Kind: "Thing", Namespace: "ns1", Name: "c1"}
	findXR := func() map[string]any {
		xs := w.ListObjs(sim.Key{Group: "ex.org", Kind: "XThing"}.GK())
		if len(xs) == 1 {
			return xs[0]
		}
		return nil
	}
	from := w.LogLen()
	k := &checker{c: c, name: name, mode: mode, t: &t}
	k.wit = func() any {
		var evs []string
		for _, e := range w.Log(from) {
			if e.IsWrite() {
				evs = append(evs, e.Short())
			}
		}
		return map[string]any{"case": t, "writes": evs, "claim_after": w.GetObj(ckey), "xr_after": findXR()}
	}
	xrBefore := findXR()
	claimIn := w.GetObj(ckey)
	_, err, _ := ce.Reconcile("ns1", "c1")
	_, err2, _ := ce.Reconcile("ns1", "c1")
	xr1, cm1 := findXR(), w.GetObj(ckey)
	if xr1 == nil || cm1 == nil {
		c.Violate("harness:no-xr-after-sync", name, fmt.Sprintf("err=%v err2=%v", err, err2), k.wit())
		return
	}
	k.check("first-sync", claimIn, xrBefore, xr1, cm1)

	// re-sync after a user edit of the claim and an XR status change
	u := w.Client("user")
	cmU := &unstructured.Unstructured{Object: w.GetObj(ckey)}
	for f, v := range t.Edit {
		_ = unstructured.SetNestedField(cmU.Object, runtime.DeepCopyJSONValue(v), "spec", f)
	}
	if err := u.Update(context.Background(), cmU); err != nil {
		panic(err)
	}
	xrU := &unstructured.Unstructured{Object: findXR()}
	xrU.Object["status"] = runtime.DeepCopyJSONValue(t.XRStatus2)
	if err := w.Client("xrctl").Status().Update(context.Background(), xrU); err != nil {
		panic(err)
	}
	xrBefore2 := findXR()
	claimIn2 := w.GetObj(ckey)
	_, _, _ = ce.Reconcile("ns1", "c1")
	_, _, _ = ce.Reconcile("ns1", "c1")
	k.check("re-sync", claimIn2, xrBefore2, findXR(), w.GetObj(ckey))

	// a third sync after an edit of the claim's labels and annotations ONLY (the spec and the XR
	// are as the previous sync left them)
	cmM := &unstructured.Unstructured{Object: w.GetObj(ckey)}
	ls, an := cmM.GetLabels(), cmM.GetAnnotations()
	if ls == nil {
		ls = map[string]string{}
	}
	if an == nil {
		an = map[string]string{}
	}
	ls["example.org/edited-later"] = fmt.Sprintf("l%d", i%7)
	an["example.org/note-edited-later"] = fmt.Sprintf("a%d", i%5)
	for key := range ls {
		if !strings.Contains(key, "crossplane.io") && !strings.Contains(key, "kubernetes.io") && key != "example.org/edited-later" {
			ls[key] += "x" // an existing unreserved label changes its value
			break
		}
	}
	cmM.SetLabels(ls)
	cmM.SetAnnotations(an)
	if err := u.Update(context.Background(), cmM); err != nil {
		panic(err)
	}
	xrBefore3 := findXR()
	claimIn3 := w.GetObj(ckey)
	_, _, _ = ce.Reconcile("ns1", "c1")
	_, _, _ = ce.Reconcile("ns1", "c1")
	k.check("metadata-only-re-sync", claimIn3, xrBefore3, findXR(), w.GetObj(ckey))

	// a fourth sync through a STALE XR cache: the XR controller has just added a composed resource
	// reference and changed the XR's own connection secret reference; the claim controller's cache
	// still holds the XR as it was before, and the user has edited the claim. Whatever the sync does
	// with the claim's edit, what the XR side owns stays as the XR controller wrote it.
	{
		frozen := w.RV()
		xrS := &unstructured.Unstructured{Object: findXR()}
		refs, _, _ := unstructured.NestedSlice(xrS.Object, "spec", "resourceRefs")
		refs = append(refs, map[string]any{"apiVersion": "nop.ex.org/v1", "kind": "NopA", "name": fmt.Sprintf("added-later-%d", i%5)})
		_ = unstructured.SetNestedSlice(xrS.Object, refs, "spec", "resourceRefs")
		_ = unstructured.SetNestedMap(xrS.Object, map[string]any{"name": "xr-secret-renamed", "namespace": "crossplane-system"}, "spec", "writeConnectionSecretToRef")
		if err := w.Client("xrctl").Update(context.Background(), xrS); err != nil {
			panic(err)
		}
		want := specOf(findXR())
		cmS := &unstructured.Unstructured{Object: w.GetObj(ckey)}
		for f := range t.Edit {
			_ = unstructured.SetNestedField(cmS.Object, fmt.Sprintf("edited-again-%d", i%3), "spec", f)
		}
		_ = u.Update(context.Background(), cmS)
		xgk := schema.GroupKind{Group: "ex.org", Kind: "XThing"}
		lc := w.LaggingClient("claim", func(gk schema.GroupKind) (int64, bool) { return -frozen, gk == xgk })
		stale := xrk.NewClaimEnvWithClient(w, xrdName, t.SSA, lc)
		_, _, _ = stale.Reconcile("ns1", "c1")
		_, _, _ = stale.Reconcile("ns1", "c1")
		got := specOf(findXR())
		for _, f := range []string{"resourceRefs", "writeConnectionSecretToRef"} {
			if !reflect.DeepEqual(got[f], want[f]) {
				k.fail("xr-owned-field-not-preserved:"+f+":stale-xr-cache", fmt.Sprintf("sync through an XR cache that lags one XR-controller write: spec.%s was %v and is now %v", f, kit.JSON(want[f]), kit.JSON(got[f])))
			}
		}
		c.Count("stale_xr_cache_syncs", 1)
	}

	// a fifth sync: another writer (the XR controller through a plain update, kubectl, a ToComposite
	// patch) has meanwhile set the very field the claim owns to a value of its own on the XR, and the
	// user edits that field on the claim once more. The claim's user-defined fields reach the XR.
	{
		xrS := &unstructured.Unstructured{Object: findXR()}
		for f := range t.Edit {
			_ = unstructured.SetNestedField(xrS.Object, "written-on-the-xr-by-someone-else", "spec", f)
		}
		if err := w.Client("xrctl").Update(context.Background(), xrS); err == nil {
			cmS := &unstructured.Unstructured{Object: w.GetObj(ckey)}
			want := fmt.Sprintf("claim-edit-five-%d", i%7)
			for f := range t.Edit {
				_ = unstructured.SetNestedField(cmS.Object, want, "spec", f)
			}
			if err := u.Update(context.Background(), cmS); err == nil {
				for n := 0; n < 3; n++ {
					_, _, _ = ce.Reconcile("ns1", "c1")
				}
				got := specOf(findXR())
				for f := range t.Edit {
					if !reflect.DeepEqual(got[f], any(want)) {
						k.fail("claim-field-not-propagated:after-foreign-write-on-xr", fmt.Sprintf("claim spec.%s is %q but the XR still has %v after three syncs (another writer had set the field on the XR in between)", f, want, kit.JSON(got[f])))
					}
				}
				c.Count("syncs_after_foreign_write_on_xr", 1)
			}
		}
	}

	// a sixth sync: the claim is NOT edited (its previous intent was applied by this same long-lived
	// claim controller a moment ago), but another writer has changed a claim-derived spec field and a
	// claim-derived label on the XR. Every sync propagates the claim's fields: the drift is repaired.
	{
		xrS := &unstructured.Unstructured{Object: findXR()}
		cmNow := w.GetObj(ckey)
		wantSpec := map[string]any{}
		for f := range t.Edit {
			if v, ok := specOf(cmNow)[f]; ok {
				wantSpec[f] = runtime.DeepCopyJSONValue(v)
				_ = unstructured.SetNestedField(xrS.Object, "drifted-on-the-xr", "spec", f)
			}
		}
		wantLabel, hasLabel := strMap(cmNow, "labels")["example.org/edited-later"]
		if hasLabel {
			ls := xrS.GetLabels()
			if ls == nil {
				ls = map[string]string{}
			}
			ls["example.org/edited-later"] = "drifted"
			xrS.SetLabels(ls)
		}
		if err := w.Client("xrctl").Update(context.Background(), xrS); err == nil && (len(wantSpec) > 0 || hasLabel) {
			for n := 0; n < 3; n++ {
				_, _, _ = ce.Reconcile("ns1", "c1")
			}
			xrNow := findXR()
			got := specOf(xrNow)
			for f, want := range wantSpec {
				if !reflect.DeepEqual(got[f], want) {
					k.fail("claim-field-not-propagated:unchanged-claim-after-drift-on-xr", fmt.Sprintf("claim spec.%s is %v (unchanged since the last sync) but the XR still has %v after three syncs (another writer had changed the field on the XR)", f, kit.JSON(want), kit.JSON(got[f])))
				}
			}
			if hasLabel && strMap(xrNow, "labels")["example.org/edited-later"] != wantLabel {
				k.fail("claim-label-not-propagated:unchanged-claim-after-drift-on-xr", fmt.Sprintf("claim label example.org/edited-later=%q (unchanged since the last sync) but the XR has %q after three syncs (another writer had changed the label on the XR)", wantLabel, strMap(xrNow, "labels")["example.org/edited-later"]))
			}
			c.Count("syncs_of_unchanged_claim_after_drift_on_xr", 1)
		}
	}

	nestedUser, machinery := 0, 0
	for f, v := range specOf(t.Claim) {
		if allMachinery[f] {
			machinery++
		} else if _, ok := v.(map[string]any); ok {
			nestedUser++
		}
	}
	c.Eval(kit.JSON(t), nestedUser >= 1 && machinery >= 1)
	c.Count("syncs_"+mode, 2)
	if t.ExistingXR {
		c.Count("existing_xr_cases", 1)
	} else {
		c.Count("new_xr_cases", 1)
	}
	if c.WantSample() && i%97 == 0 {
		c.Sample(map[string]any{"case": t, "claim_after": w.GetObj(ckey), "xr_after": findXR()})
	}
}

func main() {
	c := kit.New("C07", "exploration")
	c.Rule = "generated claims (nested user fields whose keys collide with machinery names at deeper levels, every subset of claim machinery fields with valid values, Manual/Automatic/unset policy, reserved and unreserved label/annotation keys, external name) and XR pre-states (resourceRefs, own connection secret ref, external name, composition refs, status with user fields, private conditions, connectionDetails) synced twice (first sync, then re-sync after a user edit and an XR status change) by the production-wired claim reconciler for both syncers; stored XR and claim compared field by field with the partition from the property statement. Top-level user spec fields never use a machinery name (quantifier: collisions only at other nesting levels); label keys include prefixes that merely end in the letters of a reserved domain (cluster.x-k8s.io, notkubernetes.io) and an unprefixed key ending in k8s.io: not reserved, must propagate. distinct = generated case; non-trivial = >=1 nested user field and >=1 machinery field on the claim."
	c.Rule += " " + "A fourth sync reads the XR through a stale cache: XR-owned fields keep the XR controller's latest values."
	c.Rule += " " + "A fifth sync after another writer set the claim-owned field on the XR."
	c.Rule += " " + "A sixth sync of the UNCHANGED claim by the same long-lived controller after another writer changed a claim-derived spec field and label on the XR (the drift is repaired)."
	c.Assumptions = []string{"the XRD schema preserves unknown fields, so no pruning is needed for the generated claims", "sim implements SSA via the k8s managedfields library"}
	c.Floor = 200
	n := c.N(2000, 40000)
	var wg sync.WaitGroup
	sem := make(chan struct{}, 12)
	_ = baseWorld()
	for i := 0; i < n; i++ {
		name := fmt.Sprintf("sync/%d", i)
		if !c.Want(name) {
			continue
		}
		wg.Add(1)
		sem <- struct{}{}
		go func(i int, name string) {
			defer wg.Done()
			defer func() { <-sem }()
			if err := kit.Try(func() { runCase(c, i, name) }); err != nil {
				c.Violate("panic", name, err.Error(), nil)
			}
		}(i, name)
	}
	wg.Wait()
	c.Finish()
}
