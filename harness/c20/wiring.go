//go:build verif

package main

import (
	"context"
	"fmt"
	"os"
	"path/filepath"
	"strings"

	admv1 "k8s.io/api/admissionregistration/v1"
	"k8s.io/apimachinery/pkg/types"

	"github.com/crossplane/crossplane-runtime/pkg/logging"

	"github.com/crossplane/crossplane/internal/initializer"
	"github.com/crossplane/crossplane/verifh/kit"
	"github.com/crossplane/crossplane/verifh/sim"
	"github.com/crossplane/crossplane/verifh/xrk"
)

// config is the flag set of `crossplane core init` (cmd/crossplane/core/init.go initCommand).
type config struct {
	Namespace       string   `json:"namespace"`
	ServiceAccount  string   `json:"serviceAccount"`
	WebhookSvc      string   `json:"webhookService"`
	WebhookSvcNS    string   `json:"webhookServiceNamespace"`
	WebhookPort     int32    `json:"webhookPort"`
	CASecret        string   `json:"caSecret"`
	ServerSecret    string   `json:"serverSecret"`
	ClientSecret    string   `json:"clientSecret"`
	ESSServerSecret string   `json:"essServerSecret,omitempty"`
	Providers       []string `json:"providers,omitempty"`
	Configurations  []string `json:"configurations,omitempty"`
	Functions       []string `json:"functions,omitempty"`
	ConversionCRD   bool     `json:"conversionCRD,omitempty"` // CRD directory = repo CRDs + one synthetic CRD with webhook conversion
	crdDir, whDir   string
}

// the two flag sets used: the Helm chart's values and a second, unrelated naming.
func chartConfig() config {
	return config{Namespace: "crossplane-system", ServiceAccount: "crossplane", WebhookSvc: "crossplane-webhooks",
		WebhookSvcNS: "crossplane-system", WebhookPort: 9443, CASecret: "crossplane-root-ca",
		ServerSecret: "crossplane-tls-server", ClientSecret: "crossplane-tls-client"}
}

func otherConfig() config {
	return config{Namespace: "xp", ServiceAccount: "xp-core", WebhookSvc: "hooks",
		WebhookSvcNS: "xp-web", WebhookPort: 8443, CASecret: "root-ca",
		ServerSecret: "tls-srv", ClientSecret: "tls-cli"}
}

func repoDir() string {
	if d := os.Getenv("VERIF_REPO_DIR"); d != "" {
		return d
	}
	return "/repo"
}

// steps rebuilds, line by line, the step list of initCommand.Run with webhooks enabled.
func steps(c config) []initializer.Step {
	s := xrk.Scheme()
	log := logging.NewNopLogger()
	var steps []initializer.Step
	tlsGeneratorOpts := []initializer.TLSCertificateGeneratorOption{
		initializer.TLSCertificateGeneratorWithClientSecretName(c.ClientSecret, []string{fmt.Sprintf("%s.%s", c.ServiceAccount, c.Namespace)}),
		initializer.TLSCertificateGeneratorWithLogger(log),
	}
	tlsGeneratorOpts = append(tlsGeneratorOpts,
		initializer.TLSCertificateGeneratorWithServerSecretName(c.ServerSecret, initializer.DNSNamesForService(c.WebhookSvc, c.WebhookSvcNS)))
	steps = append(steps, initializer.NewTLSCertificateGenerator(c.Namespace, c.CASecret, tlsGeneratorOpts...))
	nn := types.NamespacedName{Name: c.ServerSecret, Namespace: c.Namespace}
	port := c.WebhookPort
	svc := admv1.ServiceReference{Name: c.WebhookSvc, Namespace: c.WebhookSvcNS, Port: &port}
	steps = append(steps,
		initializer.NewCoreCRDs(c.crdDir, s, initializer.WithWebhookTLSSecretRef(nn)),
		initializer.NewWebhookConfigurations(c.whDir, s, nn, svc))
	steps = append(steps,
		initializer.NewCoreCRDsMigrator("compositionrevisions.apiextensions.crossplane.io", "v1alpha1"),
		initializer.NewCoreCRDsMigrator("environmentconfigs.apiextensions.crossplane.io", "v1beta1"),
		initializer.NewCoreCRDsMigrator("usages.apiextensions.crossplane.io", "v1beta1"),
		initializer.NewCoreCRDsMigrator("functions.pkg.crossplane.io", "v1beta1"),
		initializer.NewCoreCRDsMigrator("functionrevisions.pkg.crossplane.io", "v1beta1"),
		initializer.NewCoreCRDsMigrator("locks.pkg.crossplane.io", "v1alpha1"),
	)
	if c.ESSServerSecret != "" {
		steps = append(steps, initializer.NewTLSCertificateGenerator(c.Namespace, c.CASecret,
			initializer.TLSCertificateGeneratorWithServerSecretName(c.ESSServerSecret, []string{fmt.Sprintf("*.%s", c.Namespace)}),
			initializer.TLSCertificateGeneratorWithLogger(log),
		))
	}
	steps = append(steps, initializer.NewLockObject(),
		initializer.NewPackageInstaller(c.Providers, c.Configurations, c.Functions),
		initializer.NewStoreConfigObject(c.Namespace),
		initializer.StepFunc(initializer.DefaultDeploymentRuntimeConfig),
	)
	return steps
}

type runResult struct {
	Err     error
	Panic   error
	Calls   int
	LogFrom int
}

// runInit is one `crossplane core init` process against the world: a fresh client, the
// production step list, optionally one injected API fault at call index k.
func runInit(w *sim.World, c config, k int, out sim.Outcome) runResult {
	cl := w.Client("init")
	if k >= 0 {
		cl.Fault(k, out)
	}
	r := runResult{LogFrom: w.LogLen()}
	r.Panic = kit.Try(func() {
		r.Err = initializer.New(cl, logging.NewNopLogger(), steps(c)...).Init(context.Background())
	})
	r.Calls = cl.Calls()
	return r
}

const syntheticCRD = `apiVersion: apiextensions.k8s.io/v1
kind: CustomResourceDefinition
metadata:
  name: widgets.verif.example.org
spec:
  group: verif.example.org
  names:
    kind: Widget
    listKind: WidgetList
    plural: widgets
    singular: widget
  scope: Cluster
  conversion:
    strategy: Webhook
    webhook:
      conversionReviewVersions:
      - v1
      clientConfig:
        service:
          name: webhook-service
          namespace: system
          path: /convert
  versions:
  - name: v1
    served: true
    storage: true
    schema:
      openAPIV3Schema:
        type: object
        x-kubernetes-preserve-unknown-fields: true
  - name: v1beta1
    served: true
    storage: false
    schema:
      openAPIV3Schema:
        type: object
        x-kubernetes-preserve-unknown-fields: true
`

// dirs prepares the yaml directories: the repository's own, and a temporary copy of the CRD
// directory with one synthetic CRD that uses webhook conversion added (no CRD of the current
// tree does, so the CA-injection path of CoreCRDs would otherwise never run).
type dirs struct {
	crds, crdsConv, webhooks, tmp string
}

func prepareDirs() (*dirs, error) {
	d := &dirs{
		crds:     filepath.Join(repoDir(), "cluster", "crds"),
		webhooks: filepath.Join(repoDir(), "cluster", "webhookconfigurations"),
	}
	tmp, err := os.MkdirTemp("", "c20-crds-")
	if err != nil {
		return nil, err
	}
	d.tmp, d.crdsConv = tmp, tmp
	ents, err := os.ReadDir(d.crds)
	if err != nil {
		return nil, err
	}
	for _, e := range ents {
		if e.IsDir() || !(strings.HasSuffix(e.Name(), ".yaml") || strings.HasSuffix(e.Name(), ".yml")) {
			continue
		}
		b, err := os.ReadFile(filepath.Join(d.crds, e.Name()))
		if err != nil {
			return nil, err
		}
		if err := os.WriteFile(filepath.Join(tmp, e.Name()), b, 0o644); err != nil {
			return nil, err
		}
	}
	if err := os.WriteFile(filepath.Join(tmp, "verif.example.org_widgets.yaml"), []byte(syntheticCRD), 0o644); err != nil {
		return nil, err
	}
	return d, nil
}

func (d *dirs) cleanup() {
	if d != nil && d.tmp != "" {
		_ = os.RemoveAll(d.tmp)
	}
}

func (d *dirs) apply(c config) config {
	c.whDir = d.webhooks
	c.crdDir = d.crds
	if c.ConversionCRD {
		c.crdDir = d.crdsConv
	}
	return c
}
