//go:build verif

package main

import (
	"fmt"
	"strings"

	"k8s.io/apimachinery/pkg/apis/meta/v1/unstructured"

	"github.com/crossplane/crossplane/verifh/sim"
	"github.com/crossplane/crossplane/verifh/xrk"
)

const (
	digA = "sha256:aaaaaaaaaaaaaaaaaaaaaaaaaaaaaaaaaaaaaaaaaaaaaaaaaaaaaaaaaaaaaaaa"
	digB = "sha256:bbbbbbbbbbbbbbbbbbbbbbbbbbbbbbbbbbbbbbbbbbbbbbbbbbbbbbbbbbbbbbbb"
)

// scenario is one initial store plus one flag set.
type scenario struct {
	Name      string   `json:"name"`
	Class     string   `json:"initialStoreClass"`
	Cfg       config   `json:"flags"`
	Installed []pkgObj `json:"preInstalledPackages,omitempty"`
	Note      string   `json:"note,omitempty"`
	world     *sim.World
}

type builder struct {
	d     *dirs
	own   *material // harness-made CA + certificates for the chart flag set
	stale *material // an unrelated, older CA (stale bundles)
}

func newWorld(seed uint64) *sim.World {
	w := sim.NewWorld(xrk.Scheme(), seed)
	w.KeepBodies = false
	return w
}

func mustInit(w *sim.World, c config) {
	r := runInit(w, c, -1, sim.OK)
	if r.Err != nil || r.Panic != nil {
		panic(fmt.Sprintf("building a fully initialised store failed: err=%v panic=%v", r.Err, r.Panic))
	}
}

// userEdit is "a user edited this object": read, modify, update through the API.
func userEdit(w *sim.World, k sim.Key, status bool, fn func(o map[string]any)) {
	o := w.GetObj(k)
	if o == nil {
		panic("userEdit: no object " + k.String())
	}
	fn(o)
	u := &unstructured.Unstructured{Object: o}
	c := w.Client("user")
	var err error
	if status {
		err = c.Status().Update(nil, u) //nolint:staticcheck // ctx unused by sim
	} else {
		err = c.Update(nil, u) //nolint:staticcheck // ctx unused by sim
	}
	if err != nil {
		panic(fmt.Sprintf("userEdit %s: %v", k, err))
	}
}

func pkgObject(p pkgObj, extraSpec map[string]any) map[string]any {
	spec := map[string]any{"package": p.Source}
	for k, v := range extraSpec {
		spec[k] = v
	}
	return map[string]any{"apiVersion": "pkg.crossplane.io/v1", "kind": p.Kind, "metadata": map[string]any{"name": p.Name}, "spec": spec}
}

func seedPkgs(w *sim.World, ps []pkgObj) {
	for _, p := range ps {
		w.MustSeed("user", pkgObject(p, map[string]any{"packagePullPolicy": "IfNotPresent", "revisionHistoryLimit": int64(3)}))
	}
}

func (c config) withPkgs(kind2refs map[string][]string) config {
	c.Providers, c.Configurations, c.Functions = kind2refs["Provider"], kind2refs["Configuration"], kind2refs["Function"]
	return c
}

func crdKey(name string) sim.Key {
	return sim.Key{Group: "apiextensions.k8s.io", Kind: "CustomResourceDefinition", Name: name}
}

// scenarios builds every initial store. Stores of the "full" classes are the result of a real
// previous run of the initializer; everything else is seeded by the harness.
func (b *builder) scenarios(seed uint64) []*scenario {
	var out []*scenario
	add := func(s *scenario) {
		s.Cfg = b.d.apply(s.Cfg)
		out = append(out, s)
	}
	chart := chartConfig()
	chartConv := chart
	chartConv.ConversionCRD = true

	// a fully initialised cluster for the chart flag set (with the conversion CRD)
	fullChart := newWorld(seed*100 + 1)
	mustInit(fullChart, b.d.apply(chartConv))

	// 1. empty store, chart flags, no packages, the repository's CRD directory as is
	add(&scenario{Name: "empty-chart", Class: "empty", Cfg: chart, world: newWorld(seed*100 + 2)})

	// 2. empty store, other flag set, ESS certificate, every reference form requested
	allForms := map[string][]string{
		"Provider": {
			"crossplane-contrib/provider-aws:v1.2.3",                 // no host, tag
			"xpkg.upbound.io/crossplane-contrib/provider-gcp:v1.0.0", // host, tag
			"registry.example.com:5000/acme/provider-x@" + digA,      // host:port, digest
		},
		"Configuration": {
			"acme/configuration-platform@" + digA, // no host, digest
			"ghcr.io/acme/configuration-net",      // host, bare
		},
		"Function": {
			"crossplane-contrib/function-auto-ready",                                         // no host, bare
			"xpkg.upbound.io/crossplane-contrib/function-patch-and-transform:v0.7.0@" + digB, // host, tag+digest
		},
	}
	other := otherConfig()
	other.ESSServerSecret = "ess-tls"
	other.ConversionCRD = true
	add(&scenario{Name: "empty-allforms", Class: "empty", Cfg: other.withPkgs(allForms), world: newWorld(seed*100 + 3)})

	// 3. the three secrets exist without data (this is what the Helm chart creates)
	{
		w := newWorld(seed*100 + 4)
		for _, n := range []string{chart.CASecret, chart.ServerSecret, chart.ClientSecret} {
			w.MustSeed("helm", secretObj(chart.Namespace, n, nil))
		}
		add(&scenario{Name: "helm-empty-secrets", Class: "partial:secrets-without-data", world: w,
			Cfg: chart.withPkgs(map[string][]string{"Provider": {"xpkg.upbound.io/crossplane-contrib/provider-aws:v1.0.0"}})})
	}

	// 4. only the CA secret (a CA made elsewhere)
	{
		w := newWorld(seed*100 + 5)
		w.MustSeed("user", secretObj(chart.Namespace, chart.CASecret, map[string][]byte{"tls.crt": b.own.CACrt, "tls.key": b.own.CAKey}))
		add(&scenario{Name: "only-ca-secret", Class: "partial:only-ca-secret", Cfg: chartConv, world: w})
	}

	// 4b. only the CA secret, holding a complete and valid CA that expires in 90 days: an existing
	// authority is kept whatever its remaining life
	{
		crt, err := shortLivedCA(b.own, 90)
		if err != nil {
			panic(err)
		}
		w := newWorld(seed*100 + 15)
		w.MustSeed("user", secretObj(chart.Namespace, chart.CASecret, map[string][]byte{"tls.crt": crt, "tls.key": b.own.CAKey}))
		add(&scenario{Name: "only-short-lived-ca-secret", Class: "partial:only-ca-secret", Cfg: chartConv, world: w})
	}

	// 4c. a CA secret holding only HALF a certificate authority (the certificate without its key, or
	// the key without its certificate): not a usable authority; whatever initialisation makes of it,
	// what it stores is ONE consistent authority and the certificates it issues chain to it
	for hi, half := range []string{"tls.crt", "tls.key"} {
		w := newWorld(seed*100 + 25 + uint64(hi))
		data := map[string][]byte{"tls.crt": b.own.CACrt}
		if half == "tls.key" {
			data = map[string][]byte{"tls.key": b.own.CAKey}
		}
		w.MustSeed("user", secretObj(chart.Namespace, chart.CASecret, data))
		add(&scenario{Name: "ca-secret-with-only-" + half, Class: "partial:half-a-ca", Cfg: chartConv, world: w})
	}

	// 5. CA + server secret whose ca.crt key is missing; client secret absent; ESS certificate
	{
		w := newWorld(seed*100 + 6)
		w.MustSeed("user", secretObj(chart.Namespace, chart.CASecret, map[string][]byte{"tls.crt": b.own.CACrt, "tls.key": b.own.CAKey}))
		w.MustSeed("user", secretObj(chart.Namespace, chart.ServerSecret, map[string][]byte{"tls.crt": b.own.SrvCrt, "tls.key": b.own.SrvKey}))
		c := chart
		c.ESSServerSecret = "ess-server-certs"
		add(&scenario{Name: "ca+server-without-ca.crt", Class: "partial:tls-secret-keys-missing", Cfg: c, world: w})
	}

	// 6. only TLS secrets: server without ca.crt, client complete, no CA secret
	{
		w := newWorld(seed*100 + 7)
		w.MustSeed("user", secretObj(chart.Namespace, chart.ServerSecret, map[string][]byte{"tls.crt": b.own.SrvCrt, "tls.key": b.own.SrvKey}))
		w.MustSeed("user", secretObj(chart.Namespace, chart.ClientSecret, map[string][]byte{"tls.crt": b.own.CliCrt, "tls.key": b.own.CliKey, "ca.crt": b.own.CACrt}))
		add(&scenario{Name: "server-without-ca.crt-no-ca", Class: "partial:tls-secret-keys-missing", Cfg: chartConv, world: w})
	}

	// 6b. TLS secrets holding only fragments (certificate and bundle without key / key only): what
	// exists is kept, nothing is regenerated over it
	{
		w := newWorld(seed*100 + 17)
		w.MustSeed("user", secretObj(chart.Namespace, chart.CASecret, map[string][]byte{"tls.crt": b.own.CACrt, "tls.key": b.own.CAKey}))
		w.MustSeed("user", secretObj(chart.Namespace, chart.ServerSecret, map[string][]byte{"tls.crt": b.own.SrvCrt, "ca.crt": b.own.CACrt}))
		w.MustSeed("user", secretObj(chart.Namespace, chart.ClientSecret, map[string][]byte{"tls.key": b.own.CliKey}))
		add(&scenario{Name: "tls-secrets-with-fragments", Class: "partial:tls-secret-keys-missing", Cfg: chartConv, world: w})
	}

	// 7. CRDs and webhook configurations present, but without / with a stale CA bundle; the
	// functions CRD still lists an old stored version and a Function exists (migrator path)
	{
		w := fullChart.Clone()
		for _, n := range []string{"crossplane", "crossplane-no-usages"} {
			userEdit(w, sim.Key{Group: "admissionregistration.k8s.io", Kind: "ValidatingWebhookConfiguration", Name: n}, false, func(o map[string]any) {
				hooks, _ := o["webhooks"].([]any)
				for _, h := range hooks {
					if cc, ok := h.(map[string]any)["clientConfig"].(map[string]any); ok {
						delete(cc, "caBundle")
					}
				}
			})
		}
		userEdit(w, crdKey("widgets.verif.example.org"), false, func(o map[string]any) {
			_ = unstructured.SetNestedField(o, b64(b.stale.CACrt), "spec", "conversion", "webhook", "clientConfig", "caBundle")
		})
		userEdit(w, crdKey("functions.pkg.crossplane.io"), true, func(o map[string]any) {
			o["status"] = map[string]any{"storedVersions": []any{"v1beta1", "v1"}}
		})
		inst := []pkgObj{{Kind: "Function", Name: "fn-auto", Source: "crossplane-contrib/function-auto-ready:v0.2.0", Custom: true}}
		seedPkgs(w, inst)
		add(&scenario{Name: "crds-bundle-missing-or-stale", Class: "partial:crds-without-current-bundle", world: w, Installed: inst,
			Cfg: chartConv.withPkgs(map[string][]string{"Function": {"crossplane-contrib/function-auto-ready:v0.3.0"}})})
	}

	// 8. fully initialised by a previous run that installed packages (so they carry the
	// installer's own object names), now upgraded to new versions
	{
		old := map[string][]string{
			"Provider":      {"crossplane-contrib/provider-aws:v1.2.3", "xpkg.upbound.io/crossplane-contrib/provider-gcp:v1.0.0", "registry.example.com:5000/acme/provider-x@" + digA},
			"Configuration": {"ghcr.io/acme/configuration-net"},
			"Function":      {"xpkg.upbound.io/crossplane-contrib/function-patch-and-transform:v0.7.0@" + digB},
		}
		upgraded := map[string][]string{
			"Provider":      {"crossplane-contrib/provider-aws:v1.3.0", "xpkg.upbound.io/crossplane-contrib/provider-gcp@" + digA, "registry.example.com:5000/acme/provider-x@" + digB},
			"Configuration": {"ghcr.io/acme/configuration-net:v2.0.0"},
			"Function":      {"xpkg.upbound.io/crossplane-contrib/function-patch-and-transform:v0.8.0@" + digA},
		}
		w := newWorld(seed*100 + 8)
		mustInit(w, b.d.apply(other.withPkgs(old)))
		var inst []pkgObj
		for _, p := range pkgsIn(snap(w.Snapshot())) {
			inst = append(inst, p) // Custom=false: named by the installer itself
		}
		add(&scenario{Name: "full-upgrade-packages", Class: "full", Cfg: other.withPkgs(upgraded), world: w, Installed: inst})
	}

	// 9. fully initialised; the user edited the default objects and installed packages from
	// registry-less sources under names of their own
	{
		w := fullChart.Clone()
		userEdit(w, sim.Key{Group: "secrets.crossplane.io", Kind: "StoreConfig", Name: "default"}, false, func(o map[string]any) {
			_ = unstructured.SetNestedField(o, "team-secrets", "spec", "defaultScope")
			_ = unstructured.SetNestedField(o, "Kubernetes", "spec", "type")
			_ = unstructured.SetNestedStringMap(o, map[string]string{"example.org/edited-by": "platform-team"}, "metadata", "annotations")
		})
		userEdit(w, sim.Key{Group: "pkg.crossplane.io", Kind: "DeploymentRuntimeConfig", Name: "default"}, false, func(o map[string]any) {
			_ = unstructured.SetNestedField(o, int64(2), "spec", "deploymentTemplate", "spec", "replicas")
			_ = unstructured.SetNestedField(o, map[string]any{}, "spec", "deploymentTemplate", "spec", "selector")
			_ = unstructured.SetNestedField(o, map[string]any{"spec": map[string]any{"containers": []any{map[string]any{"name": "package-runtime", "args": []any{"--debug"}}}}}, "spec", "deploymentTemplate", "spec", "template")
			_ = unstructured.SetNestedStringMap(o, map[string]string{"example.org/tier": "prod"}, "metadata", "labels")
		})
		userEdit(w, sim.Key{Group: "pkg.crossplane.io", Kind: "Lock", Name: "lock"}, false, func(o map[string]any) {
			o["packages"] = []any{map[string]any{"name": "my-gcp-abc123", "type": "Provider", "source": "crossplane-contrib/provider-gcp", "version": "v0.1.0", "dependencies": []any{}}}
			_ = unstructured.SetNestedStringMap(o, map[string]string{"example.org/note": "do not touch"}, "metadata", "annotations")
		})
		inst := []pkgObj{
			// custom object names are DNS subdomains: dots and more than 63 characters are legal
			{Kind: "Provider", Name: "upbound.my-gcp", Source: "crossplane-contrib/provider-gcp:v0.1.0", Custom: true},
			{Kind: "Configuration", Name: "platform-configuration-of-the-acme-corporation-for-every-team-and-region-eu", Source: "acme/configuration-platform@" + digA, Custom: true},
			{Kind: "Function", Name: "fn-pt", Source: "crossplane-contrib/function-patch-and-transform", Custom: true},
		}
		seedPkgs(w, inst)
		add(&scenario{Name: "user-edited-defaults+custom-names-no-host", Class: "full:user-edits+packages-custom-names", world: w, Installed: inst,
			Cfg: chartConv.withPkgs(map[string][]string{
				"Provider":      {"crossplane-contrib/provider-gcp:v0.2.0"},
				"Configuration": {"acme/configuration-platform@" + digB},
				"Function":      {"crossplane-contrib/function-patch-and-transform:v0.7.0"},
			})})
	}

	// 10. packages from sources WITH a registry host (and one registry-less source pinned by tag and
	// digest), installed under names of the user's own
	{
		w := fullChart.Clone()
		inst := []pkgObj{
			// a package preloaded into the package cache (pull policy Never): its source is a file name,
			// not an image reference, and its object sorts before every other Provider
			{Kind: "Provider", Name: "a-preloaded", Source: "Preloaded/Provider_Tools.xpkg", Custom: true},
			{Kind: "Provider", Name: "my-aws", Source: "xpkg.upbound.io/crossplane-contrib/provider-aws:v1", Custom: true},
			{Kind: "Configuration", Name: "my-net", Source: "ghcr.io/acme/configuration-net@" + digA, Custom: true},
			{Kind: "Function", Name: "my-fn", Source: "registry.example.com:5000/acme/function-x:v1", Custom: true},
			// a registry-less source pinned by tag AND digest
			{Kind: "Provider", Name: "my-gcp", Source: "crossplane-contrib/provider-gcp:v0.1.0@" + digA, Custom: true},
		}
		seedPkgs(w, inst)
		add(&scenario{Name: "packages-custom-names-host-or-tag+digest", Class: "full:packages-custom-names", world: w, Installed: inst,
			Cfg: chartConv.withPkgs(map[string][]string{
				"Provider":      {"xpkg.upbound.io/crossplane-contrib/provider-aws:v2", "crossplane-contrib/provider-gcp:v0.2.0"},
				"Configuration": {"ghcr.io/acme/configuration-net@" + digB},
				"Function":      {"registry.example.com:5000/acme/function-x:v2"},
			})})
	}

	return out
}

func errKey(err error) string {
	s := err.Error()
	if i := strings.Index(s, ":"); i >= 0 {
		s = s[:i]
	}
	s = strings.ToLower(strings.TrimSpace(s))
	var b strings.Builder
	for _, r := range s {
		switch {
		case r >= 'a' && r <= 'z', r >= '0' && r <= '9':
			b.WriteRune(r)
		default:
			b.WriteByte('-')
		}
	}
	return strings.Trim(b.String(), "-")
}
