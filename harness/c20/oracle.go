//go:build verif

package main

import (
	"crypto/tls"
	"crypto/x509"
	"encoding/base64"
	"encoding/json"
	"encoding/pem"
	"fmt"
	"os"
	"path/filepath"
	"reflect"
	"sort"
	"strings"
	"time"

	"k8s.io/apimachinery/pkg/runtime"
	"sigs.k8s.io/yaml"
)

// snap is a deep copy of the store keyed by "group/Kind/namespace/name" (sim.World.Snapshot).
type snap map[string]map[string]any

// finding is one oracle alarm of one execution.
type finding struct{ Key, What string }

type findings []finding

func (f *findings) add(key, format string, a ...any) {
	for _, x := range *f {
		if x.Key == key {
			return
		}
	}
	*f = append(*f, finding{key, fmt.Sprintf(format, a...)})
}

// ---- O1: state equality ------------------------------------------------------------------

var volatileMeta = []string{"resourceVersion", "managedFields", "creationTimestamp", "uid", "generation"}

// normalize drops what the property does not count as state (resourceVersion, managedFields,
// timestamps, uid, generation). With maskKeys, freshly generated key material is masked too:
// Secret data values and every caBundle value are replaced by a marker (presence is kept).
func normalize(s snap, maskKeys bool) snap {
	out := snap{}
	for k, o := range s {
		c := runtime.DeepCopyJSON(o)
		if md, ok := c["metadata"].(map[string]any); ok {
			for _, f := range volatileMeta {
				delete(md, f)
			}
		}
		if maskKeys {
			if c["kind"] == "Secret" {
				if d, ok := c["data"].(map[string]any); ok {
					for dk, dv := range d {
						if s, _ := dv.(string); s != "" {
							d[dk] = "<material>"
						}
					}
				}
			}
			maskBundles(c)
		}
		out[k] = c
	}
	return out
}

func maskBundles(v any) {
	switch t := v.(type) {
	case map[string]any:
		for k, e := range t {
			if k == "caBundle" {
				if s, _ := e.(string); s != "" {
					t[k] = "<bundle>"
				}
				continue
			}
			maskBundles(e)
		}
	case []any:
		for _, e := range t {
			maskBundles(e)
		}
	}
}

func short(v any) string {
	b, _ := json.Marshal(v)
	if len(b) > 90 {
		return string(b[:90]) + "..."
	}
	return string(b)
}

func firstDiff(path string, a, b any) string {
	am, aok := a.(map[string]any)
	bm, bok := b.(map[string]any)
	if aok && bok {
		keys := map[string]bool{}
		for k := range am {
			keys[k] = true
		}
		for k := range bm {
			keys[k] = true
		}
		ks := make([]string, 0, len(keys))
		for k := range keys {
			ks = append(ks, k)
		}
		sort.Strings(ks)
		for _, k := range ks {
			av, ain := am[k]
			bv, bin := bm[k]
			switch {
			case !ain:
				return fmt.Sprintf("%s.%s: absent vs %s", path, k, short(bv))
			case !bin:
				return fmt.Sprintf("%s.%s: %s vs absent", path, k, short(av))
			case !reflect.DeepEqual(av, bv):
				return firstDiff(path+"."+k, av, bv)
			}
		}
		return ""
	}
	as, aok := a.([]any)
	bs, bok := b.([]any)
	if aok && bok {
		if len(as) != len(bs) {
			return fmt.Sprintf("%s: %d vs %d elements", path, len(as), len(bs))
		}
		for i := range as {
			if !reflect.DeepEqual(as[i], bs[i]) {
				return firstDiff(fmt.Sprintf("%s[%d]", path, i), as[i], bs[i])
			}
		}
		return ""
	}
	if !reflect.DeepEqual(a, b) {
		return fmt.Sprintf("%s: %s vs %s", path, short(a), short(b))
	}
	return ""
}

// diffSnaps lists the differences between two normalized stores: (kind of the first
// differing object, human-readable lines).
func diffSnaps(a, b snap) (string, []string) {
	keys := map[string]bool{}
	for k := range a {
		keys[k] = true
	}
	for k := range b {
		keys[k] = true
	}
	ks := make([]string, 0, len(keys))
	for k := range keys {
		ks = append(ks, k)
	}
	sort.Strings(ks)
	kind := ""
	var lines []string
	for _, k := range ks {
		ao, ain := a[k]
		bo, bin := b[k]
		var l string
		switch {
		case !ain:
			l = k + ": only in second"
		case !bin:
			l = k + ": only in first"
		case !reflect.DeepEqual(ao, bo):
			l = k + ": " + firstDiff("", ao, bo)
		default:
			continue
		}
		if kind == "" {
			kind = strings.Split(k, "/")[1]
		}
		if len(lines) < 12 {
			lines = append(lines, l)
		}
	}
	return kind, lines
}

// ---- secrets and certificates ---------------------------------------------------------------

func secretKey(ns, name string) string { return "/Secret/" + ns + "/" + name }

// secretData decodes the data of a stored secret; nil when the secret is absent.
func secretData(s snap, ns, name string) map[string][]byte {
	o, ok := s[secretKey(ns, name)]
	if !ok {
		return nil
	}
	out := map[string][]byte{}
	d, _ := o["data"].(map[string]any)
	for k, v := range d {
		str, _ := v.(string)
		b, err := base64.StdEncoding.DecodeString(str)
		if err != nil {
			b = []byte("!!undecodable:" + str)
		}
		out[k] = b
	}
	return out
}

type role struct{ Name, Secret string }

func (c config) roles() []role {
	rs := []role{{"ca", c.CASecret}, {"server", c.ServerSecret}, {"client", c.ClientSecret}}
	if c.ESSServerSecret != "" {
		rs = append(rs, role{"ess", c.ESSServerSecret})
	}
	return rs
}

// checkKept is O2: every non-empty data key a secret has in `before` is byte-identical in `after`.
func checkKept(f *findings, c config, before, after snap, phase string) {
	for _, r := range c.roles() {
		bd := secretData(before, c.Namespace, r.Secret)
		ad := secretData(after, c.Namespace, r.Secret)
		if r.Name == "ca" && (len(bd["tls.crt"]) == 0) != (len(bd["tls.key"]) == 0) {
			// half a CA (certificate without key or key without certificate) is not an existing
			// authority: the unchanged tree replaces it by a fresh, complete one. O3 still demands
			// that whatever is stored is one consistent authority that the issued certificates chain to.
			continue
		}
		dks := make([]string, 0, len(bd))
		for k := range bd {
			dks = append(dks, k)
		}
		sort.Strings(dks)
		for _, k := range dks {
			if len(bd[k]) == 0 {
				continue
			}
			if string(ad[k]) != string(bd[k]) {
				f.add("O2-material-changed:"+r.Name+":"+phase, "secret %s/%s key %q existed (%d bytes) and was replaced/removed (%s): existing CA / TLS material must be kept, never regenerated",
					c.Namespace, r.Secret, k, len(bd[k]), phase)
			}
		}
	}
}

func parseCerts(pemBytes []byte) ([]*x509.Certificate, error) {
	var out []*x509.Certificate
	rest := pemBytes
	for {
		var blk *pem.Block
		blk, rest = pem.Decode(rest)
		if blk == nil {
			break
		}
		if blk.Type != "CERTIFICATE" {
			return nil, fmt.Errorf("PEM block of type %q, want CERTIFICATE", blk.Type)
		}
		c, err := x509.ParseCertificate(blk.Bytes)
		if err != nil {
			return nil, err
		}
		out = append(out, c)
	}
	if len(out) == 0 {
		return nil, fmt.Errorf("no PEM certificate in %d bytes", len(pemBytes))
	}
	return out, nil
}

func poolOf(cs []*x509.Certificate) *x509.CertPool {
	p := x509.NewCertPool()
	for _, c := range cs {
		p.AddCert(c)
	}
	return p
}

func hasMaterial(d map[string][]byte) bool {
	return len(d["tls.crt"]) != 0 || len(d["tls.key"]) != 0 || len(d["ca.crt"]) != 0
}

// expectedServerNames are the DNS names under which a Service <svc> in namespace <ns> is
// reachable inside a cluster (the API server dials <svc>.<ns>.svc), written from the
// Kubernetes service DNS convention and the "DNS names for a given service name and
// namespace" promise of the generator.
func expectedServerNames(svc, ns string) map[string]string {
	return map[string]string{"svc": svc, "svc.ns": svc + "." + ns, "svc.ns.svc": svc + "." + ns + ".svc"}
}

// checkCerts is O3 on the final store: certificates issued during the scenario (their secret
// had no material in the initial store) chain to the stored CA, match their private key, carry
// the promised names, and the ca.crt stored next to them authenticates them. Returns the
// number of certificates verified.
func checkCerts(f *findings, c config, initial, final snap) int {
	verified := 0
	now := time.Now().Add(time.Hour)
	ca := secretData(final, c.Namespace, c.CASecret)
	caCerts, err := parseCerts(ca["tls.crt"])
	if err != nil {
		f.add("O3-ca-unusable", "CA secret %s/%s has no parsable tls.crt after init: %v", c.Namespace, c.CASecret, err)
		return 0
	}
	if _, err := tls.X509KeyPair(ca["tls.crt"], ca["tls.key"]); err != nil {
		f.add("O3-keypair-mismatch:ca", "CA secret tls.crt/tls.key do not form a key pair: %v", err)
	}
	if !caCerts[0].IsCA {
		f.add("O3-ca-not-a-ca", "stored CA certificate has IsCA=false")
	}
	roots := poolOf(caCerts)
	for _, r := range c.roles() {
		if r.Name == "ca" {
			continue
		}
		if hasMaterial(secretData(initial, c.Namespace, r.Secret)) {
			continue // pre-existing certificate: kept as is (O2), not issued by this init
		}
		d := secretData(final, c.Namespace, r.Secret)
		leafs, err := parseCerts(d["tls.crt"])
		if err != nil {
			f.add("O3-missing-certificate:"+r.Name, "secret %s/%s has no parsable tls.crt after init: %v", c.Namespace, r.Secret, err)
			continue
		}
		leaf := leafs[0]
		eku := x509.ExtKeyUsageServerAuth
		if r.Name == "client" {
			eku = x509.ExtKeyUsageClientAuth
		}
		if _, err := leaf.Verify(x509.VerifyOptions{Roots: roots, CurrentTime: now, KeyUsages: []x509.ExtKeyUsage{eku}}); err != nil {
			f.add("O3-chain:"+r.Name, "certificate in %s/%s does not verify against the CA stored in %s: %v", c.Namespace, r.Secret, c.CASecret, err)
		}
		if _, err := tls.X509KeyPair(d["tls.crt"], d["tls.key"]); err != nil {
			f.add("O3-keypair-mismatch:"+r.Name, "tls.crt/tls.key of %s/%s do not form a key pair: %v", c.Namespace, r.Secret, err)
		}
		if own, err := parseCerts(d["ca.crt"]); err != nil {
			f.add("O3-ca.crt:"+r.Name, "ca.crt of %s/%s is not a certificate: %v", c.Namespace, r.Secret, err)
		} else if _, err := leaf.Verify(x509.VerifyOptions{Roots: poolOf(own), CurrentTime: now, KeyUsages: []x509.ExtKeyUsage{eku}}); err != nil {
			f.add("O3-ca.crt:"+r.Name, "ca.crt stored in %s/%s does not authenticate the certificate next to it: %v", c.Namespace, r.Secret, err)
		}
		switch r.Name {
		case "server":
			exp := expectedServerNames(c.WebhookSvc, c.WebhookSvcNS)
			for _, pat := range []string{"svc", "svc.ns", "svc.ns.svc"} {
				if err := leaf.VerifyHostname(exp[pat]); err != nil {
					f.add("O3-dns-name-missing:server:"+pat, "server certificate does not cover %q (has %v)", exp[pat], leaf.DNSNames)
				}
			}
		case "ess":
			if err := leaf.VerifyHostname("store-plugin." + c.Namespace); err != nil {
				f.add("O3-dns-name-missing:ess", "ESS server certificate does not cover hosts in *.%s (has %v)", c.Namespace, leaf.DNSNames)
			}
		case "client":
			if err := leaf.VerifyHostname(c.ServiceAccount + "." + c.Namespace); err != nil {
				f.add("O3-client-subject-missing", "client certificate does not carry the subject %s.%s (has %v)", c.ServiceAccount, c.Namespace, leaf.DNSNames)
			}
		}
		verified++
	}
	return verified
}

// ---- O6: CA bundles ------------------------------------------------------------------------

// dirFacts is what the harness reads itself from the yaml directories.
type dirFacts struct {
	CRDNames       []string
	ConversionCRDs map[string]bool
	WebhookDocs    map[string]int // kind -> number of documents
}

func readDocs(dir string) ([]map[string]any, error) {
	ents, err := os.ReadDir(dir)
	if err != nil {
		return nil, err
	}
	var out []map[string]any
	for _, e := range ents {
		if e.IsDir() || !(strings.HasSuffix(e.Name(), ".yaml") || strings.HasSuffix(e.Name(), ".yml")) {
			continue
		}
		b, err := os.ReadFile(filepath.Join(dir, e.Name()))
		if err != nil {
			return nil, err
		}
		for _, doc := range strings.Split("\n"+string(b), "\n---") {
			var m map[string]any
			if err := yaml.Unmarshal([]byte(doc), &m); err != nil {
				return nil, fmt.Errorf("%s: %w", e.Name(), err)
			}
			if len(m) > 0 {
				out = append(out, m)
			}
		}
	}
	return out, nil
}

func nested(o map[string]any, path ...string) any {
	var cur any = o
	for _, p := range path {
		m, ok := cur.(map[string]any)
		if !ok {
			return nil
		}
		cur = m[p]
	}
	return cur
}

func nestedStr(o map[string]any, path ...string) string {
	s, _ := nested(o, path...).(string)
	return s
}

func readDirFacts(crdDir, whDir string) (*dirFacts, error) {
	df := &dirFacts{ConversionCRDs: map[string]bool{}, WebhookDocs: map[string]int{}}
	crds, err := readDocs(crdDir)
	if err != nil {
		return nil, err
	}
	for _, d := range crds {
		n := nestedStr(d, "metadata", "name")
		df.CRDNames = append(df.CRDNames, n)
		if nestedStr(d, "spec", "conversion", "strategy") == "Webhook" {
			df.ConversionCRDs[n] = true
		}
	}
	sort.Strings(df.CRDNames)
	whs, err := readDocs(whDir)
	if err != nil {
		return nil, err
	}
	for _, d := range whs {
		df.WebhookDocs[nestedStr(d, "kind")]++
	}
	return df, nil
}

// bundleCurrent decides whether a caBundle is "the current CA bundle": a client trusting
// exactly this bundle (the API server calling the webhook) must accept the server certificate
// currently stored in the webhook TLS secret.
func bundleCurrent(bundleB64 string, serverLeaf *x509.Certificate) (string, error) {
	if bundleB64 == "" {
		return "missing", fmt.Errorf("no caBundle")
	}
	raw, err := base64.StdEncoding.DecodeString(bundleB64)
	if err != nil {
		return "unparsable", err
	}
	cs, err := parseCerts(raw)
	if err != nil {
		return "unparsable", err
	}
	if _, err := serverLeaf.Verify(x509.VerifyOptions{Roots: poolOf(cs), CurrentTime: time.Now().Add(time.Hour), KeyUsages: []x509.ExtKeyUsage{x509.ExtKeyUsageServerAuth}}); err != nil {
		return "does-not-authenticate-server-cert", err
	}
	return "", nil
}

// checkBundles is O6. Returns the number of bundles checked.
func checkBundles(f *findings, c config, df *dirFacts, final snap) int {
	srv := secretData(final, c.Namespace, c.ServerSecret)
	leafs, err := parseCerts(srv["tls.crt"])
	if err != nil {
		f.add("O6-no-server-certificate", "webhook TLS secret %s/%s has no parsable tls.crt after init: %v", c.Namespace, c.ServerSecret, err)
		return 0
	}
	checked := 0
	for _, n := range df.CRDNames {
		o, ok := final["apiextensions.k8s.io/CustomResourceDefinition//"+n]
		if !ok {
			f.add("O6-crd-missing", "core CRD %s is not installed after init", n)
			continue
		}
		if df.ConversionCRDs[n] && nestedStr(o, "spec", "conversion", "strategy") != "Webhook" {
			f.add("O6-crd-conversion-lost", "CRD %s should use webhook conversion", n)
		}
	}
	keys := make([]string, 0, len(final))
	for k := range final {
		keys = append(keys, k)
	}
	sort.Strings(keys)
	whCount := map[string]int{}
	for _, k := range keys {
		o := final[k]
		switch o["kind"] {
		case "CustomResourceDefinition":
			if nestedStr(o, "spec", "conversion", "strategy") != "Webhook" {
				continue
			}
			b := nestedStr(o, "spec", "conversion", "webhook", "clientConfig", "caBundle")
			if why, err := bundleCurrent(b, leafs[0]); err != nil {
				f.add("O6-ca-bundle:CustomResourceDefinition:"+why, "CRD %s uses webhook conversion but its caBundle is not the current one: %v", nestedStr(o, "metadata", "name"), err)
			}
			checked++
		case "ValidatingWebhookConfiguration", "MutatingWebhookConfiguration":
			kind := o["kind"].(string)
			whCount[kind]++
			hooks, _ := o["webhooks"].([]any)
			for _, h := range hooks {
				hm, _ := h.(map[string]any)
				b := nestedStr(hm, "clientConfig", "caBundle")
				if why, err := bundleCurrent(b, leafs[0]); err != nil {
					f.add("O6-ca-bundle:"+kind+":"+why, "%s %s webhook %s: caBundle is not the current one: %v", kind, nestedStr(o, "metadata", "name"), nestedStr(hm, "name"), err)
				}
				checked++
			}
		}
	}
	for kind, n := range df.WebhookDocs {
		if whCount[kind] < n {
			f.add("O6-webhook-configuration-missing", "%d %s documents in the directory, %d objects installed", n, kind, whCount[kind])
		}
	}
	return checked
}

// ---- O4: packages --------------------------------------------------------------------------

var pkgKinds = []string{"Provider", "Configuration", "Function"}

type pkgObj struct {
	Kind   string `json:"kind"`
	Name   string `json:"name"`
	Source string `json:"source"`
	Custom bool   `json:"customName,omitempty"` // seeded by "a user" under a name of their choosing
}

func pkgsIn(s snap) []pkgObj {
	var out []pkgObj
	keys := make([]string, 0, len(s))
	for k := range s {
		keys = append(keys, k)
	}
	sort.Strings(keys)
	for _, k := range keys {
		o := s[k]
		kind, _ := o["kind"].(string)
		if !strings.HasPrefix(k, "pkg.crossplane.io/") {
			continue
		}
		for _, pk := range pkgKinds {
			if kind == pk {
				out = append(out, pkgObj{Kind: kind, Name: nestedStr(o, "metadata", "name"), Source: nestedStr(o, "spec", "package")})
			}
		}
	}
	return out
}

func (c config) requested() []pkgObj {
	var out []pkgObj
	for _, r := range c.Providers {
		out = append(out, pkgObj{Kind: "Provider", Source: r})
	}
	for _, r := range c.Configurations {
		out = append(out, pkgObj{Kind: "Configuration", Source: r})
	}
	for _, r := range c.Functions {
		out = append(out, pkgObj{Kind: "Function", Source: r})
	}
	return out
}

// installedClass names the class of a pre-installed package for the violation key.
func installedClass(p pkgObj) string {
	r := parseRef(p.Source)
	cls := "no-host"
	switch {
	case r.Host != "":
		cls = "registry-host"
	case r.Tag != "" && r.Digest != "":
		cls = "tag-and-digest"
	}
	if p.Custom {
		return cls + "+custom-name"
	}
	return cls + "+default-name"
}

// checkPackages is O4: after init there is at most one package object per (kind, image
// repository); a requested package whose repository was installed before is the same object,
// now at the requested version; every requested package is present.
func checkPackages(f *findings, c config, installed []pkgObj, initial, final snap) {
	pre := map[string]pkgObj{} // kind|name -> pre-installed object
	for _, p := range pkgsIn(initial) {
		for _, in := range installed {
			if in.Kind == p.Kind && in.Name == p.Name {
				p.Custom = in.Custom
			}
		}
		pre[p.Kind+"|"+p.Name] = p
	}
	groups := map[string][]pkgObj{}
	for _, p := range pkgsIn(final) {
		g := p.Kind + "|" + parseRef(p.Source).Repo()
		groups[g] = append(groups[g], p)
	}
	gks := make([]string, 0, len(groups))
	for g := range groups {
		gks = append(gks, g)
	}
	sort.Strings(gks)
	for _, g := range gks {
		ps := groups[g]
		if len(ps) < 2 {
			continue
		}
		cls := "created-twice"
		for _, p := range ps {
			if q, ok := pre[p.Kind+"|"+p.Name]; ok {
				cls = installedClass(q)
				break
			}
		}
		f.add("O4-duplicate-package:"+cls, "%d %s objects for image repository %q after init: %s", len(ps), ps[0].Kind, strings.SplitN(g, "|", 2)[1], short(ps))
	}
	for _, rq := range c.requested() {
		rr := parseRef(rq.Source)
		ps := groups[rq.Kind+"|"+rr.Repo()]
		found := false
		for _, p := range ps {
			if sameVersion(parseRef(p.Source), rr) {
				found = true
			}
		}
		if !found {
			f.add("O4-requested-package-missing", "requested %s %q: no object of that repository at the requested version after init (have %s)", rq.Kind, rq.Source, short(ps))
		}
		if len(ps) == 1 {
			if q, ok := pre[ps[0].Kind+"|"+ps[0].Name]; ok && parseRef(q.Source).Repo() == rr.Repo() && !sameVersion(parseRef(ps[0].Source), rr) {
				f.add("O4-not-updated:"+installedClass(q), "installed %s %s (%s) was not updated to requested %q", q.Kind, q.Name, q.Source, rq.Source)
			}
		}
	}
}

// ---- O5: default objects ---------------------------------------------------------------------

var defaultKeys = []string{
	"secrets.crossplane.io/StoreConfig//default",
	"pkg.crossplane.io/DeploymentRuntimeConfig//default",
	"pkg.crossplane.io/Lock//lock",
}

// checkDefaults is O5: a default object present in the initial store is unchanged afterwards
// (everything but resourceVersion/managedFields/generation is compared); all three exist.
func checkDefaults(f *findings, initial, final snap) int {
	n := 0
	for _, k := range defaultKeys {
		kind := strings.Split(k, "/")[1]
		after, ok := final[k]
		if !ok {
			f.add("O5-default-missing:"+kind, "default object %s does not exist after init", k)
			continue
		}
		before, ok := initial[k]
		if !ok {
			continue
		}
		n++
		strip := func(o map[string]any) map[string]any {
			c := runtime.DeepCopyJSON(o)
			if md, ok := c["metadata"].(map[string]any); ok {
				for _, fld := range []string{"resourceVersion", "managedFields", "generation"} {
					delete(md, fld)
				}
			}
			return c
		}
		if b, a := strip(before), strip(after); !reflect.DeepEqual(b, a) {
			f.add("O5-default-clobbered:"+kind, "pre-existing %s was changed by init: %s", k, firstDiff("", b, a))
		}
	}
	return n
}
