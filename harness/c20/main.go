//go:build verif

package main

import (
	"fmt"
	"os"
	"runtime/pprof"
	"time"

	"github.com/crossplane/crossplane/verifh/sim"
	"github.com/crossplane/crossplane/verifh/xrk"
)

func main() {
	d, err := prepareDirs()
	if err != nil {
		panic(err)
	}
	defer d.cleanup()
	c := chartConfig()
	c.ConversionCRD = true
	c.ESSServerSecret = "ess"
	c.Providers = []string{"xpkg.upbound.io/crossplane-contrib/provider-aws:v2", "crossplane-contrib/provider-gcp:v1"}
	c = d.apply(c)
	w := sim.NewWorld(xrk.Scheme(), 1)
	w.KeepBodies = false
	w.MustSeed("user", map[string]any{"apiVersion": "pkg.crossplane.io/v1", "kind": "Provider", "metadata": map[string]any{"name": "my-aws"}, "spec": map[string]any{"package": "xpkg.upbound.io/crossplane-contrib/provider-aws:v1"}})
	w.MustSeed("user", map[string]any{"apiVersion": "pkg.crossplane.io/v1", "kind": "Provider", "metadata": map[string]any{"name": "my-gcp"}, "spec": map[string]any{"package": "crossplane-contrib/provider-gcp:v0@sha256:aaaaaaaaaaaaaaaaaaaaaaaaaaaaaaaaaaaaaaaaaaaaaaaaaaaaaaaaaaaaaaaa"}})
	f, _ := os.Create("/tmp/c20.prof")
	for i := 0; i < 8; i++ {
		if i == 1 {
			pprof.StartCPUProfile(f)
		}
		t := time.Now()
		r := runInit(w, c, -1, sim.OK)
		fmt.Println("run", i, "err", r.Err, "panic", r.Panic, "calls", r.Calls, time.Since(t))
		if i == 99 {
			for _, e := range w.Log(r.LogFrom) {
				fmt.Println(e.Short())
			}
		}
	}
	pprof.StopCPUProfile()
	t := time.Now()
	w2 := w.Clone()
	fmt.Println("clone", time.Since(t))
	_ = w2
	for _, k := range w.Snapshot() {
		if k["kind"] == "Provider" {
			fmt.Println(k["metadata"].(map[string]any)["name"], k["spec"])
		}
	}
}
