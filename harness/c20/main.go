//go:build verif

// C20: initialisation is idempotent and never duplicates or clobbers existing state.
// The step list of `crossplane core init` (cmd/crossplane/core/init.go, webhooks enabled) is
// rebuilt from the exported constructors of internal/initializer and run against the simulated
// API server: 1..3 times in sequence from many initial stores, and - for EVERY API-call index
// of a run - aborted there by an API error (500 / timeout / applied-but-error-returned) and
// then rerun cleanly. Six oracles written from the property text judge the resulting stores.
package main

import (
	"fmt"
	"os"
	"runtime"
	"runtime/debug"
	"sort"
	"strings"
	"sync"

	"github.com/crossplane/crossplane/verifh/kit"
	"github.com/crossplane/crossplane/verifh/sim"
)

var faultOutcomes = []sim.Outcome{sim.ServerError, sim.Timeout, sim.ErrorAfter, sim.NotServed, sim.Unavailable}

// base is what the fault-free sequence of a scenario leaves for its aborted-run cases.
type base struct {
	sc       *scenario
	df       *dirFacts
	s0       snap
	a1       snap // store after the first fault-free run
	a1Masked snap
	calls    int      // API calls of the first fault-free run
	kinds    []string // kind addressed by each call of that run
	ok       bool
}

func traceLines(w *sim.World, from, max int) []string {
	var out []string
	evs := w.Log(from)
	if len(evs) > max {
		out = append(out, fmt.Sprintf("... %d earlier calls ...", len(evs)-max))
		evs = evs[len(evs)-max:]
	}
	for i := range evs {
		out = append(out, evs[i].Short())
	}
	return out
}

func report(c *kit.Ctx, sc *scenario, caseName string, f findings, extra map[string]any) {
	for _, x := range f {
		wit := map[string]any{"scenario": sc}
		for k, v := range extra {
			wit[k] = v
		}
		c.Violate(x.Key, caseName, x.What, wit)
	}
}

// finalChecks runs O2 (against the initial store), O3, O4, O5 and O6 on a final store.
func finalChecks(c *kit.Ctx, f *findings, b *base, final snap) {
	sc := b.sc
	checkKept(f, sc.Cfg, b.s0, final, "pre-existing")
	c.Count("certificates_verified", int64(checkCerts(f, sc.Cfg, b.s0, final)))
	checkPackages(f, sc.Cfg, sc.Installed, b.s0, final)
	c.Count("default_objects_compared", int64(checkDefaults(f, b.s0, final)))
	c.Count("ca_bundles_checked", int64(checkBundles(f, sc.Cfg, b.df, final)))
}

// sequence is the fault-free part of a scenario: runs 1..3 from the initial store.
func sequence(c *kit.Ctx, sc *scenario) *base {
	b := &base{sc: sc}
	caseName := "scn/" + sc.Name + "/seq"
	df, err := readDirFacts(sc.Cfg.crdDir, sc.Cfg.whDir)
	if err != nil {
		c.Inconclusive("cannot read yaml directories: " + err.Error())
		return b
	}
	b.df = df
	w := sc.world.Clone()
	b.s0 = snap(w.Snapshot())
	var f findings
	var snaps []snap
	var steps []string
	for i := 1; i <= 3; i++ {
		r := runInit(w, sc.Cfg, -1, sim.OK)
		c.Count("runs", 1)
		c.Count("runs_fault_free", 1)
		phase := "first-run"
		if i > 1 {
			phase = "rerun"
		}
		steps = append(steps, fmt.Sprintf("run %d: calls=%d err=%v", i, r.Calls, r.Err))
		if r.Panic != nil {
			f.add("init-panic:"+phase, "run %d panicked: %v", i, r.Panic)
			break
		}
		if r.Err != nil {
			f.add("init-error:"+phase+":"+errKey(r.Err), "fault-free run %d returned an error: %v", i, r.Err)
			break
		}
		s := snap(w.Snapshot())
		snaps = append(snaps, s)
		if i == 1 {
			b.calls, b.a1 = r.Calls, s
			b.kinds = make([]string, r.Calls)
			for _, e := range w.Log(r.LogFrom) {
				if e.Actor == "init" && e.Call < len(b.kinds) {
					b.kinds[e.Call] = e.Key.Kind
				}
			}
		}
		c.Eval(fmt.Sprintf("%s|seq|run%d", sc.Name, i), len(b.s0) > 0 || i > 1)
	}
	var diff []string
	if len(snaps) == 3 {
		b.ok = true
		n1 := normalize(snaps[0], false)
		for i := 1; i < 3; i++ {
			if kind, lines := diffSnaps(n1, normalize(snaps[i], false)); kind != "" {
				f.add("O1-rerun-differs:"+kind, "store after run %d differs from the store after run 1: %s", i+1, strings.Join(lines, "; "))
				diff = lines
			}
			checkKept(&f, sc.Cfg, snaps[i-1], snaps[i], "rerun")
		}
		finalChecks(c, &f, b, snaps[0])
		finalChecks(c, &f, b, snaps[2])
		b.a1Masked = normalize(b.a1, true)
	}
	extra := map[string]any{"steps": steps, "diff": diff, "packagesBefore": pkgsIn(b.s0)}
	if len(snaps) > 0 {
		extra["packagesAfterLastRun"] = pkgsIn(snaps[len(snaps)-1])
	}
	report(c, sc, caseName, f, extra)
	// the same first run against an API server that caps the size of list pages (a client that
	// asks for pages has to follow them all): the outcome is the one of the uncapped server
	if b.ok && len(sc.Installed) > 0 {
		for _, pc := range []int{1, 2} {
			name := fmt.Sprintf("scn/%s/page-cap-%d", sc.Name, pc)
			if !c.Want(name) {
				continue
			}
			w2 := sc.world.Clone()
			w2.PageCap = pc
			var f2 findings
			r := runInit(w2, sc.Cfg, -1, sim.OK)
			c.Count("runs", 1)
			c.Count("runs_page_capped", 1)
			pages := 0
			for _, e := range w2.Log(r.LogFrom) {
				if e.Actor == "init" && e.Verb == "list" {
					pages++
				}
			}
			c.Count("page_capped_list_calls_observed", int64(pages))
			switch {
			case r.Panic != nil:
				f2.add("init-panic:page-capped", "run against a page-capping server panicked: %v", r.Panic)
			case r.Err != nil:
				f2.add("init-error:page-capped:"+errKey(r.Err), "fault-free run against a page-capping server returned an error: %v", r.Err)
			default:
				s2 := snap(w2.Snapshot())
				finalChecks(c, &f2, b, s2)
				if kind, lines := diffSnaps(b.a1Masked, normalize(s2, true)); kind != "" {
					f2.add("O1-page-capped-run-differs:"+kind, "store after a run against a server capping list pages at %d differs from the run against an uncapped one: %s", pc, strings.Join(lines, "; "))
				}
			}
			c.Eval(fmt.Sprintf("%s|page-cap-%d", sc.Name, pc), true)
			report(c, sc, name, f2, map[string]any{"pageCap": pc, "packagesBefore": pkgsIn(b.s0), "packagesAfter": pkgsIn(snap(w2.Snapshot()))})
		}
	}
	if len(f) == 0 && c.WantSample() && len(b.s0) > 0 && len(sc.Installed) > 0 {
		c.Sample(map[string]any{"case": caseName, "scenario": sc, "steps": steps,
			"packages_before": pkgsIn(b.s0), "packages_after": pkgsIn(snaps[len(snaps)-1])})
	}
	return b
}

type faultCase struct {
	b   *base
	k   int
	out sim.Outcome
}

func (fc faultCase) name() string {
	return fmt.Sprintf("scn/%s/k%d/%s", fc.b.sc.Name, fc.k, fc.out)
}

// aborted is one aborted run followed by a clean rerun.
func aborted(c *kit.Ctx, fc faultCase) {
	b, sc := fc.b, fc.b.sc
	w := sc.world.Clone()
	var f findings
	ra := runInit(w, sc.Cfg, fc.k, fc.out)
	c.Count("runs", 1)
	c.Count("runs_aborted", 1)
	c.Count("aborted_"+fc.out.String(), 1)
	hit := false
	for _, e := range w.Log(ra.LogFrom) {
		if e.Injected != "" {
			hit = true
			c.Count("abort_at_"+e.Verb+"_"+e.Key.Kind, 1)
		}
	}
	if !hit {
		c.Count("fault_not_reached", 1)
	}
	if ra.Panic != nil {
		f.add("init-panic:aborted-run", "run aborted at call %d (%s) panicked: %v", fc.k, fc.out, ra.Panic)
	}
	if hit && ra.Err == nil && ra.Panic == nil {
		c.Count("aborted_run_returned_nil", 1)
	}
	m := snap(w.Snapshot())
	abortTrace := traceLines(w, ra.LogFrom, 12)
	rb := runInit(w, sc.Cfg, -1, sim.OK)
	c.Count("runs", 1)
	c.Count("runs_clean_after_abort", 1)
	var diff []string
	switch {
	case rb.Panic != nil:
		f.add("init-panic:rerun-after-abort", "clean rerun after abort at call %d (%s) panicked: %v", fc.k, fc.out, rb.Panic)
	case rb.Err != nil:
		f.add("init-error:rerun-after-abort:"+errKey(rb.Err), "clean rerun after abort at call %d (%s) returned an error: %v", fc.k, fc.out, rb.Err)
	default:
		final := snap(w.Snapshot())
		if kind, lines := diffSnaps(b.a1Masked, normalize(final, true)); kind != "" {
			f.add("O1-abort-rerun-differs:"+kind, "store after (abort at call %d with %s, clean rerun) differs from the fault-free result (key material masked): %s", fc.k, fc.out, strings.Join(lines, "; "))
			diff = lines
		}
		checkKept(&f, sc.Cfg, m, final, "after-abort")
		finalChecks(c, &f, b, final)
	}
	c.Eval(fmt.Sprintf("%s|k%d|%s", sc.Name, fc.k, fc.out), hit && (len(b.s0) > 0 || fc.k > 0))
	report(c, sc, fc.name(), f, map[string]any{"abortAtCall": fc.k, "outcome": fc.out.String(), "abortedRunError": fmt.Sprint(ra.Err),
		"abortedRunLastCalls": abortTrace, "diff": diff})
	if len(f) == 0 && hit && fc.out == sim.ErrorAfter && fc.k > 0 && c.WantSample() {
		c.Sample(map[string]any{"case": fc.name(), "initialStoreClass": sc.Class, "abortAtCall": fc.k, "outcome": fc.out.String(),
			"abortedRunError": fmt.Sprint(ra.Err), "abortedRunLastCalls": abortTrace, "rerunCalls": rb.Calls})
	}
}

// pick selects the fault outcomes injected at call index k of scenario i. Thorough: all three
// at every index. Quick (one init run costs ~0.5 CPU-s, dominated by parsing and applying
// 1.3 MB of CRD yaml): every 3rd index with all three outcomes, except inside the uniform
// get/create-or-patch loop over the CRDs, where every 9th index gets one rotating outcome.
// Offsets depend on seed and scenario, so different seeds cover different indices.
func pick(c *kit.Ctx, scIdx, k int, kind string) []sim.Outcome {
	if c.Thorough() {
		return faultOutcomes
	}
	s := int((c.Seed%9+9)%9) + scIdx
	if kind == "CustomResourceDefinition" {
		if k%9 != s%9 {
			return nil
		}
		return []sim.Outcome{faultOutcomes[(k/9+s)%len(faultOutcomes)]}
	}
	if k%3 != s%3 {
		return nil
	}
	return faultOutcomes
}

func wantScenario(c *kit.Ctx, name string) bool {
	p := "scn/" + name
	return c.Only == "" || c.Only == p || strings.HasPrefix(c.Only, p+"/")
}

func parallel(n int, items int, fn func(i int)) {
	var wg sync.WaitGroup
	ch := make(chan int)
	for wk := 0; wk < n; wk++ {
		wg.Add(1)
		go func() {
			defer wg.Done()
			for i := range ch {
				fn(i)
			}
		}()
	}
	for i := 0; i < items; i++ {
		ch <- i
	}
	close(ch)
	wg.Wait()
}

func main() {
	debug.SetGCPercent(400)
	c := kit.New("C20", "fault_enumeration")
	c.Rule = "10 fixed scenarios = (initial store, init flags): empty; Helm-created secrets without data; only a foreign CA secret; CA + server secret lacking ca.crt; TLS secrets without CA secret; CRDs/webhook configurations with missing or stale caBundle plus an old stored version (migrator); fully initialised by a previous real run (same flags / package upgrade); user-edited StoreConfig, DeploymentRuntimeConfig and Lock; Provider/Configuration/Function pre-installed under custom names from sources with and without registry host, with tag, digest, tag+digest or bare. Requested packages cover host/host:port/no-host x tag/digest/tag+digest/bare. Per scenario: runs 1..3 fault-free, and for every API-call index of run 1 x {500, timeout, applied-but-timeout-returned} an aborted run + clean rerun (quick: every 3rd index x 3 outcomes, but only every 9th index x 1 rotating outcome inside the uniform loop over the CRDs; offsets depend on seed and scenario). Oracles O1 state equality, O2 key material kept, O3 x509 chain/key pair/DNS names, O4 one package object per (kind, registry+repository), O5 defaults untouched, O6 every caBundle authenticates the stored server certificate. distinct = (scenario, run | call index, outcome); non-trivial = the initial store is non-empty or the abort fell at a call index > 0 (and the fault was reached). Not generated (debatable under the property): TLS/CA secrets holding only unusable fragments (e.g. only ca.crt, or a CA certificate without key); a repository requested with a registry host while installed without one or vice versa; repositories whose names collide after DNS-label mangling; user-added entries inside webhook configurations."
	c.Rule += " " + "Migrator part: the six storage-version migrators alone over 2-6 Functions with the server's page size capped at 1-4, every call index x 7 outcomes (incl. 410 Gone on a continue token, 404, 409); the old version may leave status.storedVersions only after every object was rewritten."
	c.Rule += " " + "A CA secret whose valid CA expires in 90 days; pre-installed packages under dotted and 74-character object names; a pre-installed package whose source is not an image reference (preloaded, sorts first)."
	c.Rule += " " + "CA secrets holding only the certificate or only the key."
	c.Rule += " " + "Scenarios with pre-installed packages are also run against a server that caps list pages at 1 and 2 objects; the result must be that of the uncapped server."
	c.Assumptions = []string{
		"sim implements the apiserver rules of DESIGN.md 2.2; it applies no defaulting, so defaulting-induced differences between run 1 and run n are not observable",
		"no CRD of the current tree uses webhook conversion: half of the scenarios add one synthetic CRD (widgets.verif.example.org, strategy Webhook) to a temporary copy of VERIF_REPO_DIR/cluster/crds so that the CA injection of CoreCRDs runs",
		"\"current CA bundle\" is judged semantically: a client trusting exactly the stored caBundle accepts the certificate stored in the webhook TLS secret (crypto/x509), whichever of CA or server certificate the bundle holds",
		"key material is random (crypto/rand); verdicts do not depend on it",
	}
	c.Floor = 100

	d, err := prepareDirs()
	if err != nil {
		c.Inconclusive("cannot prepare yaml directories under " + repoDir() + ": " + err.Error())
		c.Finish()
	}
	chart := chartConfig()
	var own, stale *material
	var e1, e2 error
	var mg sync.WaitGroup
	mg.Add(2)
	go func() {
		defer mg.Done()
		own, e1 = newMaterial("A", []string{chart.WebhookSvc, chart.WebhookSvc + "." + chart.WebhookSvcNS, chart.WebhookSvc + "." + chart.WebhookSvcNS + ".svc"}, []string{chart.ServiceAccount + "." + chart.Namespace})
	}()
	go func() {
		defer mg.Done()
		stale, e2 = newMaterial("stale", []string{"old.example.org"}, []string{"old"})
	}()
	mg.Wait()
	if e1 != nil || e2 != nil {
		d.cleanup()
		c.Inconclusive(fmt.Sprintf("cannot generate own key material: %v %v", e1, e2))
		c.Finish()
	}
	bld := &builder{d: d, own: own, stale: stale}
	var scs []*scenario
	if err := kit.Try(func() { scs = bld.scenarios(uint64(c.Seed)) }); err != nil {
		d.cleanup()
		// the real initializer could not even produce a fully initialised store
		c.Violate("init-error:building-initial-stores", "setup", err.Error(), nil)
		c.Finish()
	}

	workers := runtime.GOMAXPROCS(0)
	bases := make([]*base, len(scs))
	parallel(workers, len(scs), func(i int) {
		sc := scs[i]
		if !wantScenario(c, sc.Name) {
			return
		}
		c.Count("initial_"+sc.Class, 1)
		c.Count("scenarios", 1)
		for _, rq := range sc.Cfg.requested() {
			c.Count("requested_"+parseRef(rq.Source).Form(), 1)
		}
		for _, in := range sc.Installed {
			c.Count("preinstalled_"+installedClass(in), 1)
		}
		if err := kit.Try(func() { bases[i] = sequence(c, sc) }); err != nil {
			c.Violate("harness-panic:sequence", "scn/"+sc.Name+"/seq", err.Error(), nil)
		}
	})

	// two initialisers racing (A preempted after k calls, B completes, A continues) on the
	// scenarios that start without complete TLS material
	parallel(workers, len(bases), func(i int) {
		b := bases[i]
		if b == nil || !b.ok {
			return
		}
		kmax := 12
		if c.Thorough() {
			kmax = 30
		}
		if i%2 == 1 && !c.Thorough() {
			return
		}
		if err := kit.Try(func() { concurrentTLS(c, b, 7) }); err != nil {
			c.Violate("harness-panic:concurrent-tls", "scn/"+b.sc.Name+"/concurrent-tls", err.Error(), nil)
		}
		if err := kit.Try(func() { concurrent(c, b, kmax) }); err != nil {
			c.Violate("harness-panic:concurrent", "scn/"+b.sc.Name+"/concurrent", err.Error(), nil)
		}
	})

	// the storage-version migrators alone, over several pages of objects
	for _, sc := range scs {
		if sc.Name == "crds-bundle-missing-or-stale" && (c.Only == "" || strings.HasPrefix(c.Only, "scn/migrator")) {
			if err := kit.Try(func() { migratorPart(c, sc) }); err != nil {
				c.Violate("harness-panic:migrator", "scn/migrator", err.Error(), nil)
			}
		}
	}

	var cases []faultCase
	callsPer := map[string]int{}
	for i, b := range bases {
		if b == nil || !b.ok {
			continue
		}
		callsPer[b.sc.Name] = b.calls
		for k := 0; k < b.calls; k++ {
			for _, out := range pick(c, i, k, b.kinds[k]) {
				fc := faultCase{b: b, k: k, out: out}
				if c.Want(fc.name()) {
					cases = append(cases, fc)
				}
			}
		}
	}
	parallel(workers, len(cases), func(i int) {
		if err := kit.Try(func() { aborted(c, cases[i]) }); err != nil {
			c.Violate("harness-panic:aborted", cases[i].name(), err.Error(), nil)
		}
	})
	d.cleanup()

	c.Exhaustive(c.Thorough())
	c.Extra("api_calls_of_first_run", callsPer)
	names := make([]string, 0, len(scs))
	for _, s := range scs {
		names = append(names, s.Name+" ["+s.Class+"]")
	}
	sort.Strings(names)
	c.Extra("scenarios", names)
	c.Extra("repo_dir", repoDir())
	if c.Only == "" && len(cases) == 0 {
		c.Inconclusive("no aborted-run case was executed")
	}
	_ = os.Stdout.Sync()
	c.Finish()
}
