//go:build verif

package main

import (
	"bytes"
	"crypto/rand"
	"crypto/rsa"
	"crypto/x509"
	"crypto/x509/pkix"
	"encoding/base64"
	"encoding/pem"
	"math/big"
	"sync"
	"time"
)

// material is key material made by the harness itself (not by the code under test), used to
// seed "a CA / certificate that already exists". Keys are PKCS#1 PEM and certificates are
// CERTIFICATE PEM, the format of the kubernetes.io/tls secrets the initializer keeps.
type material struct {
	CAKey, CACrt   []byte
	SrvKey, SrvCrt []byte
	CliKey, CliCrt []byte
}

func pemKey(k *rsa.PrivateKey) []byte {
	b := &bytes.Buffer{}
	_ = pem.Encode(b, &pem.Block{Type: "RSA PRIVATE KEY", Bytes: x509.MarshalPKCS1PrivateKey(k)})
	return b.Bytes()
}

func pemCert(der []byte) []byte {
	b := &bytes.Buffer{}
	_ = pem.Encode(b, &pem.Block{Type: "CERTIFICATE", Bytes: der})
	return b.Bytes()
}

// newMaterial makes an own CA ("Verif Own CA <label>") and a server and a client certificate
// signed by it. The three RSA keys are generated concurrently.
func newMaterial(label string, serverNames, clientNames []string) (*material, error) {
	keys := make([]*rsa.PrivateKey, 3)
	errs := make([]error, 3)
	var wg sync.WaitGroup
	for i := range keys {
		wg.Add(1)
		go func(i int) {
			defer wg.Done()
			keys[i], errs[i] = rsa.GenerateKey(rand.Reader, 2048)
		}(i)
	}
	wg.Wait()
	for _, e := range errs {
		if e != nil {
			return nil, e
		}
	}
	now := time.Now().Add(-time.Hour)
	caT := &x509.Certificate{
		SerialNumber: big.NewInt(7), Subject: pkix.Name{CommonName: "Verif Own CA " + label, Organization: []string{"verif"}},
		NotBefore: now, NotAfter: now.AddDate(5, 0, 0), IsCA: true, BasicConstraintsValid: true,
		KeyUsage: x509.KeyUsageCertSign | x509.KeyUsageCRLSign,
	}
	caDER, err := x509.CreateCertificate(rand.Reader, caT, caT, &keys[0].PublicKey, keys[0])
	if err != nil {
		return nil, err
	}
	caCert, err := x509.ParseCertificate(caDER)
	if err != nil {
		return nil, err
	}
	leaf := func(serial int64, names []string, eku x509.ExtKeyUsage, k *rsa.PrivateKey) ([]byte, error) {
		t := &x509.Certificate{
			SerialNumber: big.NewInt(serial), Subject: pkix.Name{CommonName: "verif leaf " + label},
			DNSNames: names, NotBefore: now, NotAfter: now.AddDate(2, 0, 0), BasicConstraintsValid: true,
			KeyUsage: x509.KeyUsageDigitalSignature | x509.KeyUsageKeyEncipherment, ExtKeyUsage: []x509.ExtKeyUsage{eku},
		}
		return x509.CreateCertificate(rand.Reader, t, caCert, &k.PublicKey, keys[0])
	}
	srvDER, err := leaf(8, serverNames, x509.ExtKeyUsageServerAuth, keys[1])
	if err != nil {
		return nil, err
	}
	cliDER, err := leaf(9, clientNames, x509.ExtKeyUsageClientAuth, keys[2])
	if err != nil {
		return nil, err
	}
	return &material{
		CAKey: pemKey(keys[0]), CACrt: pemCert(caDER),
		SrvKey: pemKey(keys[1]), SrvCrt: pemCert(srvDER),
		CliKey: pemKey(keys[2]), CliCrt: pemCert(cliDER),
	}, nil
}

// shortLivedCA returns a self-signed CA certificate over m's CA key that is valid now but expires
// in days days (an operator-provided CA with a short life).
func shortLivedCA(m *material, days int) ([]byte, error) {
	blk, _ := pem.Decode(m.CAKey)
	k, err := x509.ParsePKCS1PrivateKey(blk.Bytes)
	if err != nil {
		return nil, err
	}
	now := time.Now().Add(-time.Hour)
	t := &x509.Certificate{
		SerialNumber: big.NewInt(11), Subject: pkix.Name{CommonName: "Verif Short-Lived CA", Organization: []string{"verif"}},
		NotBefore: now, NotAfter: now.AddDate(0, 0, days), IsCA: true, BasicConstraintsValid: true,
		KeyUsage: x509.KeyUsageCertSign | x509.KeyUsageCRLSign,
	}
	der, err := x509.CreateCertificate(rand.Reader, t, t, &k.PublicKey, k)
	if err != nil {
		return nil, err
	}
	return pemCert(der), nil
}

func b64(b []byte) string { return base64.StdEncoding.EncodeToString(b) }

// secretObj builds a Secret; data values are raw bytes, nil data = a secret without data (as
// created by the Helm chart before the init container runs).
func secretObj(ns, name string, data map[string][]byte) map[string]any {
	o := map[string]any{"apiVersion": "v1", "kind": "Secret", "metadata": map[string]any{"name": name, "namespace": ns}}
	if data != nil {
		d := map[string]any{}
		for k, v := range data {
			d[k] = b64(v)
		}
		o["data"] = d
	}
	return o
}
