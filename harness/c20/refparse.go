//go:build verif

package main

import "strings"

// imageRef is an OCI image reference split by the harness's own parser (written from the
// distribution reference grammar `[host[:port]/]path[:tag][@digest]`, not from go-containerregistry).
type imageRef struct {
	Host   string // "" when the reference names no registry host
	Path   string
	Tag    string
	Digest string
}

// parseRef splits a reference. The first path component is a registry host iff there is a
// later component and it contains '.' or ':' or equals "localhost" (the Docker/OCI rule).
func parseRef(s string) imageRef {
	var r imageRef
	if i := strings.Index(s, "@"); i >= 0 {
		r.Digest = s[i+1:]
		s = s[:i]
	}
	if i := strings.LastIndex(s, ":"); i >= 0 && i > strings.LastIndex(s, "/") {
		r.Tag = s[i+1:]
		s = s[:i]
	}
	if i := strings.Index(s, "/"); i >= 0 {
		first := s[:i]
		if strings.ContainsAny(first, ".:") || first == "localhost" {
			r.Host = first
			s = s[i+1:]
		}
	}
	r.Path = s
	return r
}

// Repo is the image repository: registry host (possibly empty) and path, without tag/digest.
func (r imageRef) Repo() string { return r.Host + "/" + r.Path }

// Form names the reference form for the evidence counters.
func (r imageRef) Form() string {
	h := "nohost"
	switch {
	case strings.Contains(r.Host, ":"):
		h = "hostport"
	case r.Host != "":
		h = "host"
	}
	id := "bare"
	switch {
	case r.Tag != "" && r.Digest != "":
		id = "tag+digest"
	case r.Digest != "":
		id = "digest"
	case r.Tag != "":
		id = "tag"
	}
	return h + "_" + id
}

// sameVersion reports whether two references of one repository select the same image version;
// a reference with neither tag nor digest means tag "latest".
func sameVersion(a, b imageRef) bool {
	if a.Digest != "" || b.Digest != "" {
		return a.Digest == b.Digest
	}
	at, bt := a.Tag, b.Tag
	if at == "" {
		at = "latest"
	}
	if bt == "" {
		bt = "latest"
	}
	return at == bt
}
