//go:build verif

package main

import (
	"context"
	"fmt"

	"github.com/crossplane/crossplane-runtime/pkg/logging"

	"github.com/crossplane/crossplane/internal/initializer"
	"github.com/crossplane/crossplane/verifh/kit"
	"github.com/crossplane/crossplane/verifh/sim"
)

// concurrent covers two initialisers racing on the same cluster (several replicas of the core
// pod start together): initialiser A is preempted after k API calls, initialiser B runs to
// completion, A continues; whoever failed is restarted (as an init container is) until it
// succeeds. This goes beyond the property's stated quantifier (sequential runs) but stays
// within its statement: afterwards the state must be that of one initialisation - one CA, every
// certificate chaining to the stored CA, one package per repository, current CA bundles.
func concurrent(c *kit.Ctx, b *base, kmax int) {
	sc := b.sc
	for k := 0; k <= kmax; k++ {
		name := fmt.Sprintf("scn/%s/concurrent/k%d", sc.Name, k)
		if !c.Want(name) {
			continue
		}
		w := sc.world.Clone()
		var f findings
		errs := map[string]error{}
		from := w.LogLen()
		s := w.NewScheduler()
		for _, actor := range []string{"init", "init2"} {
			actor := actor
			cl := w.Client(actor)
			s.Go(actor, func() {
				errs[actor] = initializer.New(cl, logging.NewNopLogger(), steps(sc.Cfg)...).Init(context.Background())
			})
		}
		perr := kit.Try(func() {
			s.Run(sim.PlanChooser([]sim.Segment{{Actor: "init", Steps: k}, {Actor: "init2", Steps: -1}, {Actor: "init", Steps: -1}}), 100000)
		})
		w.SetScheduler(nil)
		if perr != nil {
			f.add("init-panic:concurrent", "two concurrent initialisers (A preempted after %d calls): %v", k, perr)
		}
		// restart whoever failed, like an init container, until it succeeds (bounded)
		failed := 0
		for _, actor := range []string{"init", "init2"} {
			if errs[actor] != nil {
				failed++
				var last error
				for try := 0; try < 3; try++ {
					r := runInit(w, sc.Cfg, -1, sim.OK)
					c.Count("runs", 1)
					last = r.Err
					if r.Err == nil && r.Panic == nil {
						break
					}
				}
				if last != nil {
					f.add("init-error:concurrent-restart:"+errKey(last), "initialiser %s failed in the race (%v) and keeps failing when restarted: %v", actor, errs[actor], last)
				}
			}
		}
		final := snap(w.Snapshot())
		finalChecks(c, &f, b, final)
		c.Eval(fmt.Sprintf("%s|concurrent|k%d", sc.Name, k), k > 0)
		c.Count("concurrent_pairs", 1)
		if failed > 0 {
			c.Count("concurrent_pairs_with_a_failed_initialiser", 1)
		}
		report(c, sc, name, f, map[string]any{"preemptAfterCalls": k, "errors": fmt.Sprint(errs), "firstCalls": traceLines(w, from, 30)})
	}
}

// concurrentTLS enumerates a two-dimensional grid of preemptions over the certificate step
// alone (it is the first init step and cheap to run): A runs k1 calls, B runs k2 calls, A
// finishes, B finishes; failed initialisers are restarted. Afterwards every stored certificate
// must chain to the stored CA (O3) and a further run must keep all key material (O2).
func concurrentTLS(c *kit.Ctx, b *base, kmax int) {
	sc := b.sc
	tlsOnly := func() []initializer.Step {
		var out []initializer.Step
		for _, st := range steps(sc.Cfg) {
			if _, ok := st.(*initializer.TLSCertificateGenerator); ok {
				out = append(out, st)
			}
		}
		return out
	}
	for k1 := 0; k1 <= kmax; k1++ {
		for k2 := 0; k2 <= kmax; k2++ {
			name := fmt.Sprintf("scn/%s/concurrent-tls/k%d-%d", sc.Name, k1, k2)
			if !c.Want(name) {
				continue
			}
			w := sc.world.Clone()
			var f findings
			errs := map[string]error{}
			from := w.LogLen()
			s := w.NewScheduler()
			for _, actor := range []string{"init", "init2"} {
				actor := actor
				cl := w.Client(actor)
				s.Go(actor, func() {
					errs[actor] = initializer.New(cl, logging.NewNopLogger(), tlsOnly()...).Init(context.Background())
				})
			}
			perr := kit.Try(func() {
				s.Run(sim.PlanChooser([]sim.Segment{{Actor: "init", Steps: k1}, {Actor: "init2", Steps: k2}, {Actor: "init", Steps: -1}, {Actor: "init2", Steps: -1}}), 100000)
			})
			w.SetScheduler(nil)
			if perr != nil {
				f.add("init-panic:concurrent-tls", "two concurrent certificate steps (plan k1=%d k2=%d): %v", k1, k2, perr)
			}
			for _, actor := range []string{"init", "init2"} {
				if errs[actor] == nil {
					continue
				}
				var last error
				for try := 0; try < 3; try++ {
					last = initializer.New(w.Client("init"), logging.NewNopLogger(), tlsOnly()...).Init(context.Background())
					if last == nil {
						break
					}
				}
				if last != nil {
					f.add("init-error:concurrent-tls-restart:"+errKey(last), "certificate step of %s failed in the race (%v) and keeps failing when restarted: %v", actor, errs[actor], last)
				}
			}
			mid := snap(w.Snapshot())
			c.Count("certificates_verified", int64(checkCerts(&f, sc.Cfg, b.s0, mid)))
			// one more sequential run keeps everything
			_ = initializer.New(w.Client("init"), logging.NewNopLogger(), tlsOnly()...).Init(context.Background())
			checkKept(&f, sc.Cfg, mid, snap(w.Snapshot()), "after-concurrent")
			c.Eval(fmt.Sprintf("%s|concurrent-tls|k%d-%d", sc.Name, k1, k2), k1 > 0 && k2 > 0)
			c.Count("concurrent_tls_plans", 1)
			report(c, sc, name, f, map[string]any{"plan": fmt.Sprintf("A %d calls, B %d calls, A rest, B rest", k1, k2), "errors": fmt.Sprint(errs), "calls": traceLines(w, from, 40)})
		}
	}
}
