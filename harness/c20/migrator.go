// Storage-version migrators of core init over paginated lists (C20).
//go:build verif

package main

import (
	"context"
	"fmt"
	"sort"

	"github.com/crossplane/crossplane-runtime/pkg/logging"

	"github.com/crossplane/crossplane/internal/initializer"
	"github.com/crossplane/crossplane/verifh/kit"
	"github.com/crossplane/crossplane/verifh/sim"
)

// The storage-version migrators of `core init`, in production order (see steps()).
func migrators() []initializer.Step {
	return []initializer.Step{
		initializer.NewCoreCRDsMigrator("compositionrevisions.apiextensions.crossplane.io", "v1alpha1"),
		initializer.NewCoreCRDsMigrator("environmentconfigs.apiextensions.crossplane.io", "v1beta1"),
		initializer.NewCoreCRDsMigrator("usages.apiextensions.crossplane.io", "v1beta1"),
		initializer.NewCoreCRDsMigrator("functions.pkg.crossplane.io", "v1beta1"),
		initializer.NewCoreCRDsMigrator("functionrevisions.pkg.crossplane.io", "v1beta1"),
		initializer.NewCoreCRDsMigrator("locks.pkg.crossplane.io", "v1alpha1"),
	}
}

// migratorOutcomes: every error class an API server answers a List / Patch / Get with,
// including 410 Gone (expired continue token) and 404.
var migratorOutcomes = []sim.Outcome{sim.ServerError, sim.Timeout, sim.ErrorAfter, sim.Unavailable, sim.Conflict, sim.Expired, sim.Missing}

const fnCRD = "functions.pkg.crossplane.io"

func runMigrators(w *sim.World, k int, out sim.Outcome) runResult {
	cl := w.Client("init")
	if k >= 0 {
		cl.Fault(k, out)
	}
	r := runResult{LogFrom: w.LogLen()}
	r.Panic = kit.Try(func() {
		r.Err = initializer.New(cl, logging.NewNopLogger(), migrators()...).Init(context.Background())
	})
	r.Calls = cl.Calls()
	return r
}

func storedVersions(o map[string]any) []string {
	st, _ := o["status"].(map[string]any)
	vs, _ := st["storedVersions"].([]any)
	var out []string
	for _, v := range vs {
		out = append(out, fmt.Sprint(v))
	}
	return out
}

func has(ss []string, s string) bool {
	for _, x := range ss {
		if x == s {
			return true
		}
	}
	return false
}

// migrationMonitor replays the whole trace of a world: the old stored version may leave the
// functions CRD's status only once every Function in the store has been rewritten (a patch
// request of the initializer that the server accepted) — that is what a single undisturbed run
// establishes, and what `storedVersions` tells the API server it may rely on.
func migrationMonitor(f *findings, w *sim.World, phase string) (rewritten int) {
	done := map[sim.Key]bool{}
	for _, e := range w.Log(0) {
		if e.Key.Kind == "Function" && e.Key.Group == "pkg.crossplane.io" && e.Actor == "init" && e.Verb == "patch" && e.Err == "" && !e.DryRun {
			done[e.Key] = true
		}
		if e.Verb == "patch" && e.Injected == sim.ErrorAfter.String() && e.Key.Kind == "Function" && e.Actor == "init" {
			done[e.Key] = true
		}
		if e.Key != crdKey(fnCRD) || !e.Changed || e.Before == nil || e.After == nil {
			continue
		}
		if has(storedVersions(e.Before), "v1beta1") && !has(storedVersions(e.After), "v1beta1") {
			var missing []string
			for _, k := range functionKeys(w) {
				if !done[k] {
					missing = append(missing, k.Name)
				}
			}
			if len(missing) > 0 {
				sort.Strings(missing)
				f.add("migrator-pruned-stored-version-before-rewriting-every-object:"+phase,
					"%s: event #%d (%s) removed v1beta1 from %s status.storedVersions although Functions %v were never rewritten by the initializer", phase, e.Seq, e.Actor, fnCRD, missing)
			}
		}
	}
	return len(done)
}

func functionKeys(w *sim.World) []sim.Key {
	var out []sim.Key
	for _, o := range w.Snapshot() {
		if o["kind"] == "Function" {
			md, _ := o["metadata"].(map[string]any)
			out = append(out, sim.Key{Group: "pkg.crossplane.io", Kind: "Function", Name: fmt.Sprint(md["name"])})
		}
	}
	sort.Slice(out, func(i, j int) bool { return out[i].Name < out[j].Name })
	return out
}

// migratorPart drives the storage-version migrators alone over stores in which the functions
// CRD still lists v1beta1 and several Functions exist, with the server's page size capped so
// that the paginated List needs several pages: fault-free twice, and an aborted run + clean
// rerun for every call index x outcome.
func migratorPart(c *kit.Ctx, sc *scenario) {
	type mw struct{ fns, page int }
	worlds := []mw{{3, 1}, {3, 2}, {5, 2}, {5, 4}, {6, 1}, {6, 2}, {6, 4}, {4, 3}, {2, 2}}
	if !c.Thorough() {
		s := int((c.Seed%9 + 9) % 9)
		worlds = []mw{worlds[s], worlds[(s+4)%9]}
	}
	for _, m := range worlds {
		base := sc.world.Clone()
		var extra []pkgObj
		for i := 1; i < m.fns; i++ {
			extra = append(extra, pkgObj{Kind: "Function", Name: fmt.Sprintf("fn-extra-%d", i), Source: fmt.Sprintf("xpkg.example.org/acme/function-%d:v0.1.0", i), Custom: true})
		}
		seedPkgs(base, extra)
		base.PageCap, base.KeepBodies = m.page, true
		pre := fmt.Sprintf("migrator/fns%d-page%d", m.fns, m.page)

		// fault-free: run twice
		w := base.Clone()
		var f findings
		r1 := runMigrators(w, -1, sim.OK)
		s1 := normalize(snap(w.Snapshot()), false)
		r2 := runMigrators(w, -1, sim.OK)
		c.Count("migrator_runs", 2)
		switch {
		case r1.Panic != nil || r2.Panic != nil:
			f.add("init-panic:migrator", "migrator panicked: %v %v", r1.Panic, r2.Panic)
		case r1.Err != nil || r2.Err != nil:
			f.add("init-error:migrator:"+errKey(firstErr(r1.Err, r2.Err)), "fault-free migrator run returned an error: %v / %v", r1.Err, r2.Err)
		default:
			if kind, lines := diffSnaps(s1, normalize(snap(w.Snapshot()), false)); kind != "" {
				f.add("O1-rerun-differs:"+kind, "store after migrator run 2 differs from run 1: %v", lines)
			}
			if sv := storedVersions(w.GetObj(crdKey(fnCRD))); len(sv) != 1 || sv[0] != "v1" {
				f.add("migrator-did-not-prune", "storedVersions after fault-free runs: %v", sv)
			}
			n := migrationMonitor(&f, w, "fault-free")
			c.Count("migrator_objects_rewritten_observed", int64(n))
			pages := 0
			for _, e := range w.Log(r1.LogFrom) {
				if e.Verb == "list" && e.Key.Kind == "Function" {
					pages++
				}
			}
			c.Count("migrator_list_pages_observed", int64(pages))
			if n != m.fns {
				f.add("harness:migrator-not-exercised", "expected %d Functions rewritten, observed %d", m.fns, n)
			}
		}
		c.Eval(pre+"|seq", true)
		report(c, sc, "scn/"+pre+"/seq", f, map[string]any{"functions": m.fns, "pageCap": m.page})
		if len(f) > 0 {
			continue
		}

		for k := 0; k < r1.Calls; k++ {
			for _, out := range migratorOutcomes {
				name := fmt.Sprintf("scn/%s/k%d/%s", pre, k, out)
				if !c.Want(name) {
					continue
				}
				w := base.Clone()
				var f findings
				ra := runMigrators(w, k, out)
				c.Count("migrator_runs", 1)
				c.Count("migrator_aborted_"+out.String(), 1)
				abortTrace := traceLines(w, ra.LogFrom, 12)
				for _, e := range w.Log(ra.LogFrom) {
					if e.Injected != "" {
						c.Count("migrator_abort_at_"+e.Verb+"_"+e.Key.Kind, 1)
						if e.Verb == "list" && out == sim.Expired {
							c.Count("migrator_expired_continue_token", 1)
						}
					}
				}
				if ra.Panic != nil {
					f.add("init-panic:migrator-aborted-run", "migrator run aborted at call %d (%s) panicked: %v", k, out, ra.Panic)
				}
				migrationMonitor(&f, w, "aborted-run")
				rb := runMigrators(w, -1, sim.OK)
				c.Count("migrator_runs", 1)
				switch {
				case rb.Panic != nil:
					f.add("init-panic:migrator-rerun", "clean migrator rerun panicked: %v", rb.Panic)
				case rb.Err != nil:
					f.add("init-error:migrator-rerun:"+errKey(rb.Err), "clean migrator rerun after abort at call %d (%s) returned an error: %v", k, out, rb.Err)
				default:
					if kind, lines := diffSnaps(s1, normalize(snap(w.Snapshot()), false)); kind != "" {
						f.add("O1-abort-rerun-differs:"+kind, "store after (migrator abort at call %d with %s, clean rerun) differs from the fault-free result: %v", k, out, lines)
					}
					if n := migrationMonitor(&f, w, "abort+rerun"); n != m.fns {
						f.add("migrator-objects-left-at-old-storage-version", "after (abort at call %d with %s, clean rerun) only %d of %d Functions were rewritten, storedVersions=%v", k, out, n, m.fns, storedVersions(w.GetObj(crdKey(fnCRD))))
					}
				}
				c.Eval(fmt.Sprintf("%s|k%d|%s", pre, k, out), true)
				report(c, sc, name, f, map[string]any{"functions": m.fns, "pageCap": m.page, "abortAtCall": k, "outcome": out.String(),
					"abortedRunError": fmt.Sprint(ra.Err), "abortedRunLastCalls": abortTrace})
			}
		}
	}
}

func firstErr(es ...error) error {
	for _, e := range es {
		if e != nil {
			return e
		}
	}
	return nil
}
