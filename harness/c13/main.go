//go:build verif

// C13: dynamic controllers and watches stay consistent under any interleaving.
//
// The parent process only orchestrates: it re-executes itself as child processes (several
// stress workers and one worker for the deterministic parts), so that a Go fatal error in the
// code under test (e.g. "concurrent map writes") kills a child, not the verdict. The children
// write what they measured to JSON files; the parent merges them, reads the race detector's
// log files and finishes the kit context.
package main

import (
	"encoding/json"
	"fmt"
	"os"
	"os/exec"
	"path/filepath"
	"regexp"
	"sort"
	"strconv"
	"strings"
	"sync"
	"time"

	"github.com/crossplane/crossplane/verifh/kit"
)

const (
	envRole = "VERIF_C13_ROLE"
	envOut  = "VERIF_C13_OUT"
)

type tierPlan struct {
	stress, workers, windows, seq, reest, gc int
}

func plan(c *kit.Ctx) tierPlan {
	if c.Thorough() {
		return tierPlan{stress: 100000, workers: 6, windows: 40 * len(winCombos), seq: 3000, reest: 1500, gc: 6000}
	}
	return tierPlan{stress: 2400, workers: 4, windows: 4 * len(winCombos), seq: 200, reest: 90, gc: 400}
}

func main() {
	c := kit.New("C13", "stress (race detector) + forced windows + linearizability checking")
	if role := os.Getenv(envRole); role != "" {
		child(c, role)
		return
	}
	p := plan(c)
	c.Rule = "Cases are generated deterministically from (seed, stream, index); the SCHEDULE of a stress history is chosen by the Go runtime and is not reproducible. " +
		"stress/<i>: one real ControllerEngine + real InformerTrackingCache, 2-3 controller names, 3 composed kinds + XR + CompositionRevision kinds, an optional sequential prologue, then 16-64 goroutines released together, 1-3 calls each " +
		"(Start [some with a failing NewControllerFn, some with a controller whose Start fails], Stop, IsRunning, StartWatches, StopWatches, GetWatches, the real GarbageCollectWatchesNow, RemoveInformer), at most 40 recorded engine calls per controller (the porcupine partition). " +
		"A stress history is distinct by hash(op sequence per goroutine + number of overlapping pairs observed) and non-trivial iff at least two caller-level calls on the same controller overlapped in [call,return]. " +
		"window/<i>: every (scenario x prior state of the watch) combination in turn with random controller/watch/extra watches; a StartWatches is parked inside ActiveInformers() (after the controller fetch, before the controller lock) while Stop, Stop+Start, a second StartWatches, StopWatches, the collector or RemoveInformer completes; non-trivial by the same overlap rule. " +
		"seq/<i> (single goroutine), reestablish/<i> (informer removed, then the next StartWatches) and gc/<i> (collector over generated XRs/resourceRefs in the simulated API server with XR, CompositionRevision and composed-resource watches running) are sequential and never counted as non-trivial. " +
		"Kinds in gc cases have one version per (group, kind) so that 'kind' and GVK coincide. Fake controllers' Watch and fake informers' RemoveEventHandler never fail."
	c.Rule += " (e) failing stop: RemoveEventHandler / GetInformer fail once or twice for kinds a controller watches; after every Stop attempt a controller reported as not running must have a cancelled context and no live handler; Stop retried until nil."
	c.Rule += " " + "The collector's XR list fails with discovery errors (no watch may be stopped then). Part (f): the production XR reconciler with realtime compositions over the real engine and the real collector: one live handler per referenced kind after every reconcile, none after Stop."
	c.Rule += " " + "Part (d) also runs a start request for a watch concurrently with the removal of its informer."
	c.Rule += " " + "(g) one StartWatches call in which a later watch's informer fails; (h) Stop with a reconcile in flight that calls StartWatches (hang judged from the goroutine dump)."
	c.Assumptions = []string{
		"fake informers model client-go: handlers die with a removed informer instance, RemoveEventHandler of an unknown handle is a no-op, AddEventHandler on a stopped informer fails",
		"the fake controller starts a source immediately in Watch (a started controller-runtime controller does the same)",
		"the engine's own Stop after a controller failed to start is an operation that begins when the controller's Start returns its error and whose end is unobservable; for such controller names only the duplicate-registration oracle and the linearizability model apply",
		"a data race is attributed to crossplane when an access stack of the report contains a github.com/crossplane/crossplane/ frame outside the harness",
	}
	c.Floor = 50

	dir, err := os.MkdirTemp("", "c13-")
	if err != nil {
		c.Inconclusive("cannot create temp dir: " + err.Error())
		c.Finish()
	}
	exe, err := os.Executable()
	if err != nil {
		c.Inconclusive("cannot locate own binary: " + err.Error())
		c.Finish()
	}
	roles := []string{"det"}
	for k := 0; k < p.workers; k++ {
		roles = append(roles, fmt.Sprintf("stress:%d:%d", k, p.workers))
	}
	type outcome struct {
		role   string
		res    *sink
		stderr string
		err    error
	}
	outs := make([]outcome, len(roles))
	var wg sync.WaitGroup
	for i, role := range roles {
		wg.Add(1)
		go func(i int, role string) {
			defer wg.Done()
			out := filepath.Join(dir, fmt.Sprintf("res-%d.json", i))
			errPath := filepath.Join(dir, fmt.Sprintf("stderr-%d.txt", i))
			ef, _ := os.Create(errPath)
			cmd := exec.Command(exe)
			cmd.Env = append(os.Environ(), envRole+"="+role, envOut+"="+out)
			cmd.Stdout = ef
			cmd.Stderr = ef
			runErr := cmd.Run()
			ef.Close()
			o := outcome{role: role, err: runErr}
			if b, e := os.ReadFile(errPath); e == nil {
				o.stderr = string(b)
			}
			if b, e := os.ReadFile(out); e == nil {
				r := newSink()
				if json.Unmarshal(b, r) == nil {
					o.res = r
				}
			}
			outs[i] = o
		}(i, role)
	}
	wg.Wait()

	overlapKinds := map[string]int64{}
	for _, o := range outs {
		if o.res != nil {
			merge(c, o.res, overlapKinds)
		}
		if o.res == nil || !o.res.Done {
			childDied(c, o.role, o.stderr, o.err)
		}
	}
	c.Extra("overlapping_pairs_by_operation_kinds", overlapKinds)

	// (iv) the race detector
	reports, files, total := parseRaceLogs(os.Getenv("VERIF_RACE_LOG"))
	c.Count("race.log_files", int64(files))
	c.Count("race.reports_total", int64(total))
	c.Count("race.reports_distinct", int64(len(reports)))
	if os.Getenv("VERIF_RACE_LOG") == "" {
		c.Inconclusive("VERIF_RACE_LOG is not set: not run under the race detector by /verif/check")
	}
	var harnessOnly []string
	for _, r := range reports {
		if r.Crossplane {
			c.Count("race.reports_in_crossplane", 1)
			c.Violate(r.Key, "stress", fmt.Sprintf("the race detector reported a data race with crossplane frames (%d report(s)); schedules are not reproducible, re-run the stress part", r.Count), map[string]any{"accesses": r.Accesses, "report": r.Text})
		} else {
			harnessOnly = append(harnessOnly, r.Key)
			fmt.Printf("harness-only race report:\n%s\n", r.Text)
		}
	}
	if len(harnessOnly) > 0 {
		c.Count("race.reports_harness_only", int64(len(harnessOnly)))
		c.Inconclusive("race reports without crossplane frames (harness bug): " + strings.Join(harnessOnly, ", "))
	}
	c.Extra("race_reports", reports)

	if c.Only == "" {
		if n := c.Counter("stress.histories_with_overlap"); n < int64(p.stress/10) {
			c.Inconclusive(fmt.Sprintf("only %d of %d stress histories had two overlapping calls on one controller", n, p.stress))
		}
		if c.Counter("windows.executed") < int64(len(winCombos)) {
			c.Inconclusive("not every forced-window combination was executed")
		}
		if c.Counter("gc.non_composed_watches_seen") == 0 || c.Counter("gc.unreferenced_composed_watches_seen") == 0 || c.Counter("gc.referenced_composed_watches_seen") == 0 {
			c.Inconclusive("collector cases did not cover all three classes of watches")
		}
	}
	_ = os.RemoveAll(dir)
	c.Finish()
}

func merge(c *kit.Ctx, r *sink, overlapKinds map[string]int64) {
	for _, e := range r.Evals {
		c.Eval(e.FP, e.NT)
	}
	for _, k := range sortedKeys(r.Counters) {
		c.Count(k, r.Counters[k])
	}
	for _, v := range r.Violations {
		c.Violate(v.Key, v.Case, v.What, v.Witness)
	}
	for _, m := range r.Inconcl {
		c.Inconclusive(m)
	}
	for _, s := range r.Samples {
		c.Sample(s)
	}
	for k, v := range r.OverlapKinds {
		overlapKinds[k] += v
	}
}

var xpFrame = regexp.MustCompile(`(?m)^github\.com/crossplane/crossplane/(internal/[^\s(]*(?:\([^)]*\))?[^\s(]*)\(`)

// childDied turns the death of a child into a verdict: a Go fatal error or an unrecovered
// panic with crossplane frames in the crashing goroutine is a violation, anything else is
// inconclusive.
func childDied(c *kit.Ctx, role, stderr string, err error) {
	c.Count("children.died", 1)
	tail := stderr
	if len(tail) > 8000 {
		tail = tail[len(tail)-8000:]
	}
	idx := strings.Index(stderr, "fatal error: ")
	kind := "fatal"
	if idx < 0 {
		idx = strings.Index(stderr, "\npanic: ")
		kind = "panic"
		if idx >= 0 {
			idx++
		}
	}
	if idx >= 0 {
		rest := stderr[idx:]
		line := rest
		if k := strings.Index(line, "\n"); k >= 0 {
			line = line[:k]
		}
		msg := strings.TrimPrefix(strings.TrimPrefix(line, "fatal error: "), "panic: ")
		slug := strings.Trim(regexp.MustCompile(`[^a-z0-9]+`).ReplaceAllString(strings.ToLower(msg), "-"), "-")
		if len(slug) > 60 {
			slug = slug[:60]
		}
		// the first goroutine printed is the crashing one
		first := rest
		if k := strings.Index(first, "\n\ngoroutine "); k >= 0 {
			if k2 := strings.Index(first[k+2:], "\n\n"); k2 >= 0 {
				first = first[:k+2+k2]
			}
		}
		if m := xpFrame.FindStringSubmatch(first); m != nil && !strings.HasPrefix(m[1], "verifh/") {
			ex := rest
			if len(ex) > 6000 {
				ex = ex[:6000]
			}
			c.Violate(fmt.Sprintf("%s:%s@%s", kind, slug, strings.TrimPrefix(m[1], "internal/")), role, "a child process running the code under test died: "+line, map[string]any{"role": role, "stderr": ex})
			return
		}
	}
	c.Inconclusive(fmt.Sprintf("child %s died (%v) without a result; stderr tail: %s", role, err, tail))
}

// child runs one role and writes its sink.
func child(c *kit.Ctx, role string) {
	s := newSink()
	out := os.Getenv(envOut)
	p := plan(c)
	parts := strings.Split(role, ":")
	switch parts[0] {
	case "stress":
		k, _ := strconv.Atoi(parts[1])
		K, _ := strconv.Atoi(parts[2])
		st := &stressStats{ops: map[string]int64{}}
		ok := true
		for i := k; i < p.stress && ok; i += K {
			if !c.Want(fmt.Sprintf("stress/%d", i)) {
				continue
			}
			i := i
			ok = guarded(s, fmt.Sprintf("stress/%d", i), func() bool { return runStress(s, c, i, st) })
		}
		flush(s, &st.lin, &st.qs, st.ops)
		s.Done = true
		s.write(out)
		os.Exit(0) // goroutines of a deadlocked history may still be stuck
	case "det":
		st := &detStats{ops: map[string]int64{}}
		s.maxSamples = 4
		ok := true
		for i := 0; i < p.windows && ok; i++ {
			if c.Want(fmt.Sprintf("window/%d", i)) {
				i := i
				ok = guarded(s, fmt.Sprintf("window/%d", i), func() bool { return runWindow(s, c, i, st) })
			}
		}
		for i := 0; i < p.seq && ok; i++ {
			if c.Want(fmt.Sprintf("seq/%d", i)) {
				i := i
				ok = guarded(s, fmt.Sprintf("seq/%d", i), func() bool { runSequential(s, c, i, st); return true })
			}
		}
		for i := 0; i < p.reest && ok; i++ {
			if c.Want(fmt.Sprintf("reestablish/%d", i)) {
				i := i
				ok = guarded(s, fmt.Sprintf("reestablish/%d", i), func() bool { runReestablish(s, c, i, st); return true })
			}
		}
		for i := 0; i < p.reest && ok; i++ {
			if c.Want(fmt.Sprintf("failing-stop/%d", i)) {
				i := i
				ok = guarded(s, fmt.Sprintf("failing-stop/%d", i), func() bool { runFailingStop(s, c, i, st); return true })
			}
		}
		for i := 0; i < 6 && ok; i++ {
			if c.Want(fmt.Sprintf("restart-same-name/%d", i)) {
				i := i
				ok = guarded(s, fmt.Sprintf("restart-same-name/%d", i), func() bool { runRestartSameName(s, c, i, st); return true })
			}
		}
		for i := 0; i < 12 && ok; i++ {
			if c.Want(fmt.Sprintf("stop-inflight/%d", i)) {
				i := i
				ok = guarded(s, fmt.Sprintf("stop-inflight/%d", i), func() bool { return runStopInflight(s, c, i, st) })
			}
		}
		for i := 0; i < p.reest && ok; i++ {
			if c.Want(fmt.Sprintf("partial-start/%d", i)) {
				i := i
				ok = guarded(s, fmt.Sprintf("partial-start/%d", i), func() bool { runPartialStart(s, c, i, st); return true })
			}
		}
		for i := 0; i < 6 && ok; i++ {
			if c.Want(fmt.Sprintf("xr-watch-starter/%d", i)) {
				i := i
				ok = guarded(s, fmt.Sprintf("xr-watch-starter/%d", i), func() bool { runXRWatchStarter(s, c, i); return true })
			}
		}
		for i := 0; i < p.gc && ok; i++ {
			if c.Want(fmt.Sprintf("gc/%d", i)) {
				i := i
				ok = guarded(s, fmt.Sprintf("gc/%d", i), func() bool { runGC(s, c, i, st); return true })
			}
		}
		flush(s, &st.lin, &st.qs, st.ops)
		s.Done = true
		s.write(out)
		os.Exit(0)
	}
	fmt.Fprintln(os.Stderr, "unknown role", role)
	os.Exit(3)
}

func flush(s *sink, lr *linResult, qs *quiesceStats, ops map[string]int64) {
	s.Count("porcupine.ok", int64(lr.ok))
	s.Count("porcupine.illegal", int64(lr.illegal))
	s.Count("porcupine.unknown", int64(lr.unknown))
	s.Count("porcupine.skipped", int64(lr.skipped))
	s.Count("porcupine.unknown_resolved_linearizable_by_exact_sweep", int64(lr.unknownResolved))
	s.Count("quiescence.incarnations_checked", qs.checks)
	s.Count("quiescence.live_registrations_seen", qs.liveRegs)
	s.Count("quiescence.watches_lost_with_informer_pending", qs.lostPending)
	s.Count("quiescence.registrations_unattributed", qs.unattributed)
	keys := make([]string, 0, len(ops))
	for k := range ops {
		keys = append(keys, k)
	}
	sort.Strings(keys)
	for _, k := range keys {
		s.Count(k, ops[k])
	}
}

// guarded runs one case (including its quiescence-time engine calls) under the deadlock
// watchdog. It returns false if the process must stop.
func guarded(s *sink, caseName string, f func() bool) bool {
	res := make(chan bool, 1)
	go func() { res <- f() }()
	select {
	case ok := <-res:
		return ok
	case <-time.After(2 * watchdogDuration()):
		deadlockVerdict(s, caseName, "the case (operations, then the engine calls made at quiescence) did not finish")
		return false
	}
}
