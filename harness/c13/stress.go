//go:build verif

package main

// Part (a): short concurrent histories against one real engine each, under the race detector.

import (
	"fmt"
	"math/rand/v2"
	"os"
	"regexp"
	"runtime"
	"sort"
	"strconv"
	"strings"
	"sync"
	"time"

	"k8s.io/apimachinery/pkg/runtime/schema"

	"github.com/crossplane/crossplane/internal/engine"
	"github.com/crossplane/crossplane/verifh/kit"
)

const perCtrlBudget = 36 // generated engine calls per controller; + observation calls <= 40

type stressCase struct {
	names    []string
	mode     worldMode
	flaky    string // the name whose controllers may fail to start asynchronously ("" = none)
	prologue []opSpec
	perG     [][]opSpec
	xrs      map[schema.GroupKind][]map[string]any
}

func pickWIDs(rng *rand.Rand, ctrl string) []engine.WatchID {
	all := watchIDs(ctrl)
	n := 1 + rng.IntN(3)
	rng.Shuffle(len(all), func(i, j int) { all[i], all[j] = all[j], all[i] })
	return all[:n]
}

func genXRs(rng *rand.Rand, names []string) map[schema.GroupKind][]map[string]any {
	out := map[schema.GroupKind][]map[string]any{}
	for _, n := range names {
		g := xrGVK(n)
		for k := rng.IntN(4); k > 0; k-- {
			var refs []any
			for _, ck := range composedKinds {
				if rng.IntN(2) == 0 {
					refs = append(refs, map[string]any{"apiVersion": ck.GroupVersion().String(), "kind": ck.Kind, "name": fmt.Sprintf("r%d", k)})
				}
			}
			out[g.GroupKind()] = append(out[g.GroupKind()], map[string]any{
				"apiVersion": g.GroupVersion().String(), "kind": g.Kind,
				"metadata": map[string]any{"name": fmt.Sprintf("xr-%d", k)},
				"spec":     map[string]any{"resourceRefs": refs},
			})
		}
	}
	return out
}

func genStress(rng *rand.Rand) stressCase {
	sc := stressCase{}
	nc := 2 + rng.IntN(2)
	perm := rng.Perm(len(ctrlNames))
	for _, p := range perm[:nc] {
		sc.names = append(sc.names, ctrlNames[p])
	}
	sort.Strings(sc.names)
	if rng.IntN(2) == 0 {
		sc.mode = worldYield
	}
	if rng.IntN(100) < 15 {
		sc.flaky = sc.names[rng.IntN(len(sc.names))]
	}
	sc.xrs = genXRs(rng, sc.names)
	budget := map[string]int{}
	for _, n := range sc.names {
		budget[n] = perCtrlBudget
	}
	// prologue: some controllers already run and watch something
	for _, n := range sc.names {
		if rng.IntN(10) < 7 {
			sc.prologue = append(sc.prologue, opSpec{Kind: "Start", Ctrl: n, NC: ncOK, WithGC: rng.IntN(2) == 0})
			budget[n]--
			if rng.IntN(2) == 0 {
				sc.prologue = append(sc.prologue, opSpec{Kind: "StartWatches", Ctrl: n, WIDs: pickWIDs(rng, n)})
				budget[n]--
			}
		}
	}
	gvks := append([]gvkT{revGVK}, composedKinds...)
	for _, n := range sc.names {
		gvks = append(gvks, xrGVK(n))
	}
	G := []int{16, 24, 32, 48, 64}[rng.IntN(5)]
	per := 1 + rng.IntN(3)
	sc.perG = make([][]opSpec, G)
	for g := 0; g < G; g++ {
		for k := 0; k < per; k++ {
			var open []string
			for _, n := range sc.names {
				if budget[n] >= 3 {
					open = append(open, n)
				}
			}
			if len(open) == 0 {
				break
			}
			n := open[rng.IntN(len(open))]
			o := opSpec{Ctrl: n}
			cost := 1
			switch x := rng.IntN(100); {
			case x < 16:
				o.Kind = "Start"
				o.WithGC = rng.IntN(2) == 0
				switch y := rng.IntN(100); {
				case y < 12:
					o.NC = ncSyncFail
				case n == sc.flaky && y < 50:
					o.NC = ncAsyncFail
				}
			case x < 28:
				o.Kind = "Stop"
			case x < 38:
				o.Kind = "IsRunning"
			case x < 64:
				o.Kind = "StartWatches"
				o.WIDs = pickWIDs(rng, n)
			case x < 74:
				o.Kind = "StopWatches"
				o.WIDs = pickWIDs(rng, n)
			case x < 82:
				o.Kind = "GetWatches"
			case x < 92:
				o.Kind = "GC"
				cost = 2 // the collector's GetWatches and StopWatches
			default:
				o = opSpec{Kind: "RemoveInformer", GVK: gvks[rng.IntN(len(gvks))]}
				cost = 0
			}
			budget[n] -= cost
			sc.perG[g] = append(sc.perG[g], o)
		}
	}
	return sc
}

func (sc stressCase) fingerprint() string {
	var b strings.Builder
	fmt.Fprintf(&b, "mode=%d flaky=%s pro=", sc.mode, sc.flaky)
	for _, o := range sc.prologue {
		b.WriteString(o.String() + ";")
	}
	for g, ops := range sc.perG {
		fmt.Fprintf(&b, "|g%d:", g)
		for _, o := range ops {
			b.WriteString(o.String() + ";")
		}
	}
	return b.String()
}

type stressStats struct {
	lin linResult
	qs  quiesceStats
	ops map[string]int64
}

func watchdogDuration() time.Duration {
	if v, err := strconv.Atoi(os.Getenv("VERIF_C13_WATCHDOG_S")); err == nil && v > 0 {
		return time.Duration(v) * time.Second
	}
	return 120 * time.Second
}

var engineFrame = regexp.MustCompile(`github\.com/crossplane/crossplane/internal/engine\.([^\s(]*(?:\([^)]*\))?[^\s(]*)\(`)

// deadlockVerdict reads a dump of all goroutines: a violation only if goroutines are blocked
// in sync.(*RWMutex) / sync.(*Mutex) frames below internal/engine; otherwise inconclusive.
func deadlockVerdict(s *sink, caseName string, what string) {
	buf := make([]byte, 32<<20)
	n := runtime.Stack(buf, true)
	dump := string(buf[:n])
	var blocked []string
	funcs := map[string]bool{}
	for _, g := range strings.Split(dump, "\n\n") {
		if !(strings.Contains(g, "sync.(*RWMutex).") || strings.Contains(g, "sync.(*Mutex).")) {
			continue
		}
		m := engineFrame.FindStringSubmatch(g)
		if m == nil {
			continue
		}
		funcs[m[1]] = true
		if len(blocked) < 12 {
			blocked = append(blocked, g)
		}
	}
	fmt.Fprintf(os.Stderr, "C13 watchdog fired in %s: %s\n%s\n", caseName, what, dump)
	if len(blocked) == 0 {
		s.Inconclusive(fmt.Sprintf("watchdog fired in %s (%s) but no goroutine is blocked on an engine lock", caseName, what))
		return
	}
	s.Violate("deadlock:engine-mutex", caseName,
		fmt.Sprintf("%s: operations did not finish within %s and goroutines are blocked on sync mutexes inside internal/engine", what, watchdogDuration()),
		map[string]any{"blocked_in": sortedKeys(funcs), "blocked_goroutines": blocked})
}

// runStress executes history i. It returns false if the process must stop (deadlock).
func runStress(s *sink, c *kit.Ctx, i int, st *stressStats) bool {
	caseName := fmt.Sprintf("stress/%d", i)
	sc := genStress(c.Rng("stress", i))
	w := newWorld(sc.mode, &staticClient{items: sc.xrs})
	r0 := &recorder{w: w, g: -1}
	for _, o := range sc.prologue {
		r0.exec(o)
	}
	recs := make([]*recorder, len(sc.perG))
	start := make(chan struct{})
	var wg sync.WaitGroup
	for g := range sc.perG {
		recs[g] = &recorder{w: w, g: g}
		wg.Add(1)
		go func(r *recorder, ops []opSpec) {
			defer wg.Done()
			<-start
			for _, o := range ops {
				r.exec(o)
			}
		}(recs[g], sc.perG[g])
	}
	done := make(chan struct{})
	go func() { wg.Wait(); close(done) }()
	close(start)
	select {
	case <-done:
	case <-time.After(watchdogDuration()):
		deadlockVerdict(s, caseName, "stress history "+kit.Hash(sc.fingerprint()))
		return false
	}
	flaky := map[string]bool{}
	if sc.flaky != "" {
		flaky[sc.flaky] = true
	}
	all := quiesce(s, w, caseName, "stress", sc.names, r0, recs, flaky, &st.lin, &st.qs)
	ov, byKind := overlapPairs(all)
	s.Eval(sc.fingerprint()+fmt.Sprintf("|overlaps=%d", ov), ov >= 1)
	s.Count("stress.histories", 1)
	if ov >= 1 {
		s.Count("stress.histories_with_overlap", 1)
	}
	s.Count("stress.overlapping_pairs", int64(ov))
	s.Count("stress.goroutines", int64(len(sc.perG)))
	if sc.flaky != "" {
		s.Count("stress.histories_with_failing_controller", 1)
	}
	s.mu.Lock()
	for k, v := range byKind {
		s.OverlapKinds[k] += int64(v)
	}
	s.mu.Unlock()
	opsByType(all, st.ops)
	if s.WantSample() {
		h := all
		if len(h) > 80 {
			h = h[:80]
		}
		s.Sample(map[string]any{"case": caseName, "controllers": sc.names, "goroutines": len(sc.perG), "overlapping_pairs": ov, "history": h})
	}
	return true
}
