//go:build verif

package main

// Call/return recording at the caller (one monotonic atomic counter per engine), the
// operations the harness can issue, and the linearizability model.

import (
	"context"
	"fmt"
	"runtime"
	"sort"
	"strings"
	"time"

	"github.com/anishathalye/porcupine"
	"sigs.k8s.io/controller-runtime/pkg/client"

	"github.com/crossplane/crossplane-runtime/pkg/resource"

	v1 "github.com/crossplane/crossplane/apis/apiextensions/v1"
	"github.com/crossplane/crossplane/internal/controller/apiextensions/composite/watch"
	"github.com/crossplane/crossplane/internal/engine"
	"github.com/crossplane/crossplane/verifh/kit"
)

func yield() { runtime.Gosched() }

var bg = context.Background()

// ---------------------------------------------------------------- vocabulary

var ctrlNames = []string{"composite/xas.example.org", "composite/xbs.example.org", "composite/xcs.example.org"}

func xrGVK(ctrl string) gvkT {
	switch ctrl {
	case ctrlNames[0]:
		return gvkT{Group: "example.org", Version: "v1", Kind: "XA"}
	case ctrlNames[1]:
		return gvkT{Group: "example.org", Version: "v1", Kind: "XB"}
	}
	return gvkT{Group: "example.org", Version: "v1alpha1", Kind: "XC"}
}

var composedKinds = []gvkT{
	{Group: "s3.example.org", Version: "v1", Kind: "Bucket"},
	{Group: "sqs.example.org", Version: "v1beta1", Kind: "Queue"},
	{Group: "db.example.org", Version: "v1", Kind: "Table"},
	// a kind whose name ends in "List" (EC2 ManagedPrefixList, IPAllowList ...): not a list type
	{Group: "ec2.example.org", Version: "v1", Kind: "ManagedPrefixList"},
}

var revGVK = v1.CompositionRevisionGroupVersionKind

func xrWatch(ctrl string) engine.WatchID {
	return engine.WatchID{Type: engine.WatchTypeCompositeResource, GVK: xrGVK(ctrl)}
}
func revWatch() engine.WatchID {
	return engine.WatchID{Type: engine.WatchTypeCompositionRevision, GVK: revGVK}
}
func composedWatch(k gvkT) engine.WatchID {
	return engine.WatchID{Type: engine.WatchTypeComposedResource, GVK: k}
}

// watchIDs is every watch the harness may start for a controller.
func watchIDs(ctrl string) []engine.WatchID {
	out := []engine.WatchID{xrWatch(ctrl), revWatch()}
	for _, k := range composedKinds {
		out = append(out, composedWatch(k))
	}
	return out
}

func widStr(w engine.WatchID) string {
	return string(w.Type) + "/" + w.GVK.Kind + "." + w.GVK.Version + "." + w.GVK.Group
}

func widStrs(ws []engine.WatchID) []string {
	out := make([]string, len(ws))
	for i, w := range ws {
		out[i] = widStr(w)
	}
	sort.Strings(out)
	return out
}

// ---------------------------------------------------------------- records

// opRec is one operation with its call and return stamps.
type opRec struct {
	Kind       string   `json:"op"`
	Ctrl       string   `json:"ctrl,omitempty"`
	G          int      `json:"g"`
	Call       int64    `json:"call"`
	Ret        int64    `json:"ret"`
	Arg        []string `json:"arg,omitempty"`
	Err        string   `json:"err,omitempty"`
	NotRunning bool     `json:"not_running,omitempty"`
	Running    bool     `json:"running,omitempty"`
	N          int      `json:"n,omitempty"`
	Out        []string `json:"out,omitempty"`
	Inner      bool     `json:"inner,omitempty"` // issued by the real collector inside a GC operation
	Open       bool     `json:"open,omitempty"`  // the engine's own Stop after a failed controller start
	Panic      string   `json:"panic,omitempty"`
}

func overlaps(a, b *opRec) bool { return a.Call < b.Ret && b.Call < a.Ret }

// recorder issues operations from one goroutine and keeps that goroutine's records. It shares
// nothing but the engine's clock with other recorders.
type recorder struct {
	w    *world
	g    int
	recs []opRec
}

func (r *recorder) call(kind, ctrl string, arg []string, inner bool) int {
	r.recs = append(r.recs, opRec{Kind: kind, Ctrl: ctrl, G: r.g, Arg: arg, Inner: inner})
	i := len(r.recs) - 1
	r.recs[i].Call = r.w.clock.Add(1)
	return i
}

func (r *recorder) ret(i int, err, perr error) {
	r.recs[i].Ret = r.w.clock.Add(1)
	if err != nil {
		r.recs[i].Err = err.Error()
		r.recs[i].NotRunning = strings.Contains(err.Error(), "is not running")
	}
	if perr != nil {
		r.recs[i].Panic = perr.Error()
	}
}

func (r *recorder) Start(name string, mode int, withGC bool) error {
	opts := []engine.ControllerOption{engine.WithNewControllerFn(r.w.ncFn(mode))}
	if withGC {
		opts = append(opts, engine.WithWatchGarbageCollector(watch.NewGarbageCollector(name, resource.CompositeKind(xrGVK(name)), r.w.eng)))
	}
	i := r.call("Start", name, []string{fmt.Sprintf("nc=%d", mode)}, false)
	var err error
	perr := kit.Try(func() { err = r.w.eng.Start(name, opts...) })
	r.ret(i, err, perr)
	return err
}

func (r *recorder) Stop(name string) error {
	i := r.call("Stop", name, nil, false)
	var err error
	perr := kit.Try(func() { err = r.w.eng.Stop(bg, name) })
	r.ret(i, err, perr)
	return err
}

func (r *recorder) IsRunning(name string) bool {
	i := r.call("IsRunning", name, nil, false)
	var b bool
	perr := kit.Try(func() { b = r.w.eng.IsRunning(name) })
	r.recs[i].Running = b
	r.ret(i, nil, perr)
	return b
}

func (r *recorder) StartWatches(name string, wids ...engine.WatchID) error {
	i := r.call("StartWatches", name, widStrs(wids), false)
	ws := make([]engine.Watch, len(wids))
	for k, wid := range wids {
		ws[k] = r.w.watchFor(name, wid, r.recs[i].Call)
	}
	var err error
	perr := kit.Try(func() { err = r.w.eng.StartWatches(name, ws...) })
	r.ret(i, err, perr)
	return err
}

func (r *recorder) stopWatches(inner bool, name string, wids ...engine.WatchID) (int, error) {
	i := r.call("StopWatches", name, widStrs(wids), inner)
	var (
		n   int
		err error
	)
	perr := kit.Try(func() { n, err = r.w.eng.StopWatches(bg, name, wids...) })
	r.recs[i].N = n
	r.ret(i, err, perr)
	return n, err
}

func (r *recorder) StopWatches(name string, wids ...engine.WatchID) (int, error) {
	return r.stopWatches(false, name, wids...)
}

func (r *recorder) getWatches(inner bool, name string) ([]engine.WatchID, error) {
	i := r.call("GetWatches", name, nil, inner)
	var (
		ws  []engine.WatchID
		err error
	)
	perr := kit.Try(func() { ws, err = r.w.eng.GetWatches(name) })
	r.recs[i].Out = widStrs(ws)
	r.ret(i, err, perr)
	return ws, err
}

func (r *recorder) GetWatches(name string) ([]engine.WatchID, error) {
	return r.getWatches(false, name)
}

// recEngine is the watch.ControllerEngine handed to the REAL collector: the real engine, with
// the two calls the collector makes recorded at the caller.
type recEngine struct{ r *recorder }

func (e recEngine) GetWatches(name string) ([]engine.WatchID, error) {
	return e.r.getWatches(true, name)
}
func (e recEngine) StopWatches(_ context.Context, name string, ws ...engine.WatchID) (int, error) {
	return e.r.stopWatches(true, name, ws...)
}
func (e recEngine) GetCached() client.Client   { return e.r.w.eng.GetCached() }
func (e recEngine) GetUncached() client.Client { return e.r.w.eng.GetUncached() }

// GC runs the real collector once for the named controller.
func (r *recorder) GC(name string) error {
	gc := watch.NewGarbageCollector(name, resource.CompositeKind(xrGVK(name)), recEngine{r})
	i := r.call("GC", name, nil, false)
	var err error
	perr := kit.Try(func() { err = gc.GarbageCollectWatchesNow(bg) })
	r.ret(i, err, perr)
	return err
}

// RemoveInformer removes the informer of a kind through the real tracking cache.
func (r *recorder) RemoveInformer(gvk gvkT) error {
	i := r.call("RemoveInformer", "", []string{gvk.Kind + "." + gvk.Version + "." + gvk.Group}, false)
	var err error
	perr := kit.Try(func() { err = r.w.itc.RemoveInformer(solicited(bg), kindObject(gvk)) })
	r.ret(i, err, perr)
	return err
}

// CRDDeleted: the CRD defining gvk's kind (versions: gvk's and one nobody watches) is deleted;
// the engine's informer garbage collector (started by the caller) removes the informers. For
// the model this is the removal of gvk's informer.
func (r *recorder) CRDDeleted(gvk gvkT, otherVersion string) int {
	i := r.call("RemoveInformer", "", []string{gvk.Kind + "." + gvk.Version + "." + gvk.Group}, false)
	n := 0
	perr := kit.Try(func() { n = r.w.fc.crdDeleted(gvk, gvk.Version, otherVersion) })
	r.ret(i, nil, perr)
	return n
}

// ---------------------------------------------------------------- generated operations

type opSpec struct {
	Kind   string
	Ctrl   string
	WIDs   []engine.WatchID
	GVK    gvkT
	NC     int
	WithGC bool
}

func (o opSpec) String() string {
	switch o.Kind {
	case "Start":
		return fmt.Sprintf("Start(%s,nc=%d,gc=%v)", o.Ctrl, o.NC, o.WithGC)
	case "StartWatches", "StopWatches":
		return fmt.Sprintf("%s(%s,%s)", o.Kind, o.Ctrl, strings.Join(widStrs(o.WIDs), "+"))
	case "RemoveInformer":
		return fmt.Sprintf("RemoveInformer(%s)", o.GVK.Kind)
	}
	return fmt.Sprintf("%s(%s)", o.Kind, o.Ctrl)
}

func (r *recorder) exec(o opSpec) {
	switch o.Kind {
	case "Start":
		_ = r.Start(o.Ctrl, o.NC, o.WithGC)
	case "Stop":
		_ = r.Stop(o.Ctrl)
	case "IsRunning":
		_ = r.IsRunning(o.Ctrl)
	case "StartWatches":
		_ = r.StartWatches(o.Ctrl, o.WIDs...)
	case "StopWatches":
		_, _ = r.StopWatches(o.Ctrl, o.WIDs...)
	case "GetWatches":
		_, _ = r.GetWatches(o.Ctrl)
	case "GC":
		_ = r.GC(o.Ctrl)
	case "RemoveInformer":
		_ = r.RemoveInformer(o.GVK)
	}
}

// ---------------------------------------------------------------- history helpers

func mergeRecs(rs ...*recorder) []opRec {
	var all []opRec
	for _, r := range rs {
		all = append(all, r.recs...)
	}
	sort.Slice(all, func(i, j int) bool { return all[i].Call < all[j].Call })
	return all
}

// openStops adds the engine's internal Stop after a controller failed to start: it begins
// when the fake controller returns its error and its end is not observable.
func openStops(w *world, all []opRec) []opRec {
	last := w.clock.Load()
	for _, name := range w.names() {
		for _, inc := range w.incarnations(name) {
			if st := inc.failedAt(); st > 0 {
				all = append(all, opRec{Kind: "Stop", Ctrl: name, G: -2, Call: st, Ret: last + 10, Open: true})
			}
		}
	}
	sort.Slice(all, func(i, j int) bool { return all[i].Call < all[j].Call })
	return all
}

// overlapPairs counts pairs of caller-level operations on the same controller whose
// [call, return] intervals overlap, by unordered pair of operation kinds.
func overlapPairs(all []opRec) (int, map[string]int) {
	by := map[string]int{}
	n := 0
	for i := range all {
		a := &all[i]
		if a.Inner || a.Open || a.Ctrl == "" {
			continue
		}
		for j := i + 1; j < len(all); j++ {
			b := &all[j]
			if b.Call > a.Ret {
				break
			}
			if b.Inner || b.Open || b.Ctrl != a.Ctrl {
				continue
			}
			n++
			k := []string{a.Kind, b.Kind}
			sort.Strings(k)
			by[k[0]+"~"+k[1]]++
		}
	}
	return n, by
}

// ---------------------------------------------------------------- linearizability model

// The model is the property's sentence "reports a controller running exactly from a
// successful start until its stop": one boolean per controller name.
//
//	Start ok          -> running            Start error -> unchanged (legal in any state)
//	Stop              -> not running
//	IsRunning = b     -> legal iff b == running
//	StartWatches / StopWatches / GetWatches
//	     nil error            -> legal iff running
//	     "is not running"     -> legal iff not running
//	     any other error      -> legal in any state (it says nothing about running)
type pIn struct {
	kind string
}
type pOut struct {
	err, notRunning, running bool
}

var runningModel = porcupine.Model{
	Init: func() interface{} { return false },
	Step: func(state, input, output interface{}) (bool, interface{}) {
		st := state.(bool)
		in := input.(pIn)
		out := output.(pOut)
		switch in.kind {
		case "Start":
			if out.err {
				return true, st
			}
			return true, true
		case "Stop":
			if out.err {
				return true, st // not produced (such partitions are skipped); kept total
			}
			return true, false
		case "IsRunning":
			return out.running == st, st
		case "StartWatches", "StopWatches", "GetWatches":
			switch {
			case !out.err:
				return st, st
			case out.notRunning:
				return !st, st
			}
			return true, st
		}
		return true, st
	},
	Equal: func(a, b interface{}) bool { return a.(bool) == b.(bool) },
	DescribeOperation: func(in, out interface{}) string {
		return fmt.Sprintf("%v -> %+v", in, out)
	},
}

type linResult struct {
	ok, illegal, unknown, unknownResolved, skipped int
}

// checkLinearizable checks every controller's partition of the history.
func checkLinearizable(s *sink, caseName string, all []opRec, lr *linResult) {
	byCtrl := map[string][]opRec{}
	for _, o := range all {
		if o.Ctrl == "" || o.Kind == "GC" {
			continue // a GC operation is represented by the collector's two engine calls
		}
		byCtrl[o.Ctrl] = append(byCtrl[o.Ctrl], o)
	}
	names := make([]string, 0, len(byCtrl))
	for n := range byCtrl {
		names = append(names, n)
	}
	sort.Strings(names)
	for _, name := range names {
		part := byCtrl[name]
		skip := false
		ops := make([]porcupine.Operation, 0, len(part))
		for _, o := range part {
			if o.Panic != "" || (o.Kind == "Stop" && o.Err != "") {
				skip = true
			}
			g := o.G
			if g < 0 {
				g = 0
			}
			ops = append(ops, porcupine.Operation{
				ClientId: g, Input: pIn{o.Kind}, Call: o.Call, Return: o.Ret,
				Output: pOut{err: o.Err != "", notRunning: o.NotRunning, running: o.Running},
			})
		}
		if skip {
			lr.skipped++
			continue
		}
		res, info := porcupine.CheckOperationsVerbose(runningModel, ops, 5*time.Second)
		exact, decided := exactLinearizable(part)
		switch res {
		case porcupine.Ok:
			lr.ok++
			if decided && !exact {
				s.Inconclusive(fmt.Sprintf("%s: porcupine says linearizable, the exact sweep says not (harness bug)", caseName))
			}
		case porcupine.Unknown:
			lr.unknown++
			// a timeout is never a violation; it is resolved only in the "held" direction
			if decided && exact {
				lr.unknownResolved++
			} else {
				s.Inconclusive(fmt.Sprintf("porcupine timed out on %s (%d operations) and the exact sweep did not find a linearization", caseName, len(ops)))
			}
		case porcupine.Illegal:
			lr.illegal++
			if decided && exact {
				s.Inconclusive(fmt.Sprintf("%s: porcupine says illegal, the exact sweep found a linearization (harness bug)", caseName))
				continue
			}
			// name the first operation (by call time) that the longest partial
			// linearization could not place
			key := "not-linearizable:running-model"
			var longest []int
			for _, pl := range info.PartialLinearizations() {
				for _, l := range pl {
					if len(l) > len(longest) {
						longest = l
					}
				}
			}
			in := map[int]bool{}
			for _, id := range longest {
				in[id] = true
			}
			for id, o := range part {
				if !in[id] {
					out := "ok"
					switch {
					case o.Kind == "IsRunning":
						out = fmt.Sprint(o.Running)
					case o.NotRunning:
						out = "not-running"
					case o.Err != "":
						out = "error"
					}
					key = fmt.Sprintf("not-linearizable:%s->%s", o.Kind, out)
					break
				}
			}
			s.Violate(key, caseName, fmt.Sprintf("the history of controller %q has no linearization under the model running:bool (Start ok->true, Stop->false, IsRunning returns it, watch calls succeed iff running)", name),
				map[string]any{"controller": name, "history": part, "longest_partial_linearization": longest})
		}
	}
}

func opsByType(all []opRec, into map[string]int64) {
	for _, o := range all {
		k := o.Kind
		if o.Inner {
			k = "GC." + k
		}
		if o.Open {
			k = "internal-Stop"
		}
		into["op."+k]++
		switch {
		case o.Panic != "":
			into["ret.panic"]++
		case o.NotRunning:
			into["ret.not-running."+o.Kind]++
		case o.Err != "":
			into["ret.error."+o.Kind]++
		}
	}
}

// exactLinearizable decides the same question as porcupine for the running:bool model with a
// time sweep that is polynomial in practice. It is used when porcupine times out and as a
// cross-check. Reads (operations that constrain but do not change the state) are linearized
// as soon as they are pending and the state fits, which never loses a linearization; among
// pending writes of the same kind only the one returning first needs to be tried.
func exactLinearizable(part []opRec) (linearizable bool, decided bool) {
	const (
		cW1 = iota // sets running
		cW0        // clears running
		cR1        // legal iff running
		cR0        // legal iff not running
	)
	type op struct {
		class     int
		call, ret int64
	}
	var ops []op
	for _, o := range part {
		switch {
		case o.Kind == "Start" && o.Err == "":
			ops = append(ops, op{cW1, o.Call, o.Ret})
		case o.Kind == "Stop" && o.Err == "":
			ops = append(ops, op{cW0, o.Call, o.Ret})
		case o.Kind == "IsRunning" && o.Running:
			ops = append(ops, op{cR1, o.Call, o.Ret})
		case o.Kind == "IsRunning":
			ops = append(ops, op{cR0, o.Call, o.Ret})
		case o.Kind == "StartWatches" || o.Kind == "StopWatches" || o.Kind == "GetWatches":
			if o.Err == "" {
				ops = append(ops, op{cR1, o.Call, o.Ret})
			} else if o.NotRunning {
				ops = append(ops, op{cR0, o.Call, o.Ret})
			}
		}
	}
	if len(ops) > 64 {
		return false, false
	}
	type ev struct {
		t    int64
		ret  bool
		op   int
		open bool
	}
	var evs []ev
	for i, o := range ops {
		evs = append(evs, ev{t: o.call, op: i}, ev{t: o.ret, ret: true, op: i})
	}
	// calls before returns at equal stamps (closed intervals, as in porcupine)
	sort.Slice(evs, func(a, b int) bool {
		if evs[a].t != evs[b].t {
			return evs[a].t < evs[b].t
		}
		return !evs[a].ret && evs[b].ret
	})
	type cfg struct {
		val  bool
		done uint64
	}
	var pending uint64
	closeReads := func(c cfg) cfg {
		for i := range ops {
			b := uint64(1) << uint(i)
			if pending&b == 0 || c.done&b != 0 {
				continue
			}
			if (ops[i].class == cR1 && c.val) || (ops[i].class == cR0 && !c.val) {
				c.done |= b
			}
		}
		return c
	}
	expand := func(seed map[cfg]bool) map[cfg]bool {
		out := map[cfg]bool{}
		var stack []cfg
		for c := range seed {
			c = closeReads(c)
			if !out[c] {
				out[c] = true
				stack = append(stack, c)
			}
		}
		for len(stack) > 0 {
			c := stack[len(stack)-1]
			stack = stack[:len(stack)-1]
			for _, class := range []int{cW1, cW0} {
				best := -1
				for i := range ops {
					b := uint64(1) << uint(i)
					if pending&b == 0 || c.done&b != 0 || ops[i].class != class {
						continue
					}
					if best < 0 || ops[i].ret < ops[best].ret {
						best = i
					}
				}
				if best < 0 {
					continue
				}
				n := closeReads(cfg{val: class == cW1, done: c.done | uint64(1)<<uint(best)})
				if !out[n] {
					out[n] = true
					stack = append(stack, n)
				}
			}
		}
		return out
	}
	cur := map[cfg]bool{{}: true}
	for _, e := range evs {
		b := uint64(1) << uint(e.op)
		if !e.ret {
			pending |= b
			cur = expand(cur)
			continue
		}
		next := map[cfg]bool{}
		for c := range cur {
			if c.done&b != 0 {
				next[c] = true
			}
		}
		pending &^= b
		if len(next) == 0 {
			return false, true
		}
		cur = next
		if len(cur) > 200000 {
			return false, false
		}
	}
	return true, true
}
