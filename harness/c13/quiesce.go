//go:build verif

package main

// The oracles evaluated when no engine call is in flight: handler registrations per
// (controller incarnation, watch type, GVK), cancelled contexts of stopped controllers and
// GetWatches against the live registrations.

import (
	"fmt"
	"sort"
	"time"

	"github.com/crossplane/crossplane/internal/engine"
)

type observed struct {
	running bool
	watches map[engine.WatchID]bool
	err     error
}

func regSummary(p probedReg) map[string]any {
	m := map[string]any{"registration": p.id, "informer_gvk": p.gvk.String(), "informer_instance": p.gen, "state": string(p.state)}
	if p.attributed {
		m["controller"] = p.ctrl
		m["incarnation"] = p.inc.inc
		m["watch"] = widStr(p.wid)
		m["made_by_startwatches_called_at"] = p.op
	}
	return m
}

func regSummaries(ps []probedReg) []map[string]any {
	out := make([]map[string]any, len(ps))
	for i, p := range ps {
		out[i] = regSummary(p)
	}
	return out
}

func findCreator(all []opRec, stamp int64) *opRec {
	for i := range all {
		if all[i].Kind == "StartWatches" && all[i].Call == stamp {
			return &all[i]
		}
	}
	return nil
}

func ctrlRecs(all []opRec, ctrl string) []opRec {
	var out []opRec
	for _, o := range all {
		if o.Ctrl == ctrl || o.Kind == "RemoveInformer" {
			out = append(out, o)
		}
	}
	return out
}

// dupKey names how two live registrations for one watch of one controller incarnation arose.
// siblings are all registrations (any state) of that incarnation and watch: a registration
// leaks when the StartWatches that made it overlapped another StartWatches that registered
// the same watch, even if that other registration has been removed since.
func dupKey(live, siblings []probedReg, all []opRec) string {
	for _, p := range live {
		a := findCreator(all, p.op)
		for _, q := range siblings {
			if q.id == p.id {
				continue
			}
			b := findCreator(all, q.op)
			if a != nil && b != nil && a != b && overlaps(a, b) {
				return "dup-registration:concurrent-startwatches"
			}
		}
	}
	return "dup-registration:sequential-startwatches"
}

// leakKey names how a live registration that no running controller accounts for arose.
// siblings are all registrations (any state) of the same incarnation and watch.
func leakKey(p probedReg, siblings []probedReg, all []opRec, fallback string) string {
	cr := findCreator(all, p.op)
	if cr == nil {
		return fallback
	}
	for _, q := range siblings {
		if q.id == p.id {
			continue
		}
		if o := findCreator(all, q.op); o != nil && o != cr && overlaps(cr, o) {
			return "dup-registration:concurrent-startwatches"
		}
	}
	for i := range all {
		o := &all[i]
		if o.Kind == "Stop" && o.Ctrl == p.ctrl && overlaps(cr, o) {
			return "registration-on-stopped-controller:startwatches-vs-stop"
		}
	}
	return fallback
}

type quiesceStats struct {
	liveRegs, lostPending, unattributed, checks int64
}

func waitStarted(inc *fakeCtrl) bool {
	select {
	case <-inc.started:
		return true
	case <-time.After(30 * time.Second):
		return false
	}
}

// checkRegistrations evaluates the quiescence invariants. obs holds IsRunning/GetWatches as
// observed (and recorded) at quiescence. flaky names have an engine-internal Stop that may
// still be pending, so only the duplicate check applies to them. It returns the ids of the
// registrations it reported.
func checkRegistrations(s *sink, w *world, caseName, scenario string, names []string, all []opRec, obs map[string]observed, flaky map[string]bool, qs *quiesceStats) map[int]bool {
	reported := map[int]bool{}
	regs := w.probe()
	type incWid struct {
		inc *fakeCtrl
		wid engine.WatchID
	}
	sib := map[incWid][]probedReg{}
	for _, p := range regs {
		if !p.attributed {
			qs.unattributed++
			continue
		}
		if p.state == regLive {
			qs.liveRegs++
		}
		sib[incWid{p.inc, p.wid}] = append(sib[incWid{p.inc, p.wid}], p)
	}
	wit := func(name string, extra map[string]any) map[string]any {
		m := map[string]any{"scenario": scenario, "controller": name, "history": ctrlRecs(all, name)}
		for k, v := range extra {
			m[k] = v
		}
		return m
	}
	for _, name := range names {
		incs := w.incarnations(name)
		var cur *fakeCtrl
		if obs[name].running && len(incs) > 0 {
			cur = incs[len(incs)-1]
		}
		for _, inc := range incs {
			live := map[engine.WatchID][]probedReg{}
			var wids []engine.WatchID
			universe := widUniverse(inc, obs[name], func(f func(*fakeCtrl, engine.WatchID)) {
				for k := range sib {
					f(k.inc, k.wid)
				}
			})
			for _, wid := range universe {
				for _, p := range sib[incWid{inc, wid}] {
					if p.state == regLive {
						live[wid] = append(live[wid], p)
					}
				}
				if len(live[wid]) > 0 {
					wids = append(wids, wid)
				}
			}
			qs.checks++
			// at most one live registration per controller, watch type and kind
			for _, wid := range wids {
				if rs := live[wid]; len(rs) > 1 {
					key := dupKey(rs, sib[incWid{inc, wid}], all)
					s.Violate(key, caseName, fmt.Sprintf("%d live handler registrations for watch %s of controller %q at quiescence (GetWatches reports %d watch(es) for it)", len(rs), widStr(wid), name, b2i(obs[name].watches[wid])),
						wit(name, map[string]any{"registrations": regSummaries(sib[incWid{inc, wid}]), "getwatches": obsList(obs[name])}))
					for _, p := range rs {
						reported[p.id] = true
					}
				}
			}
			if flaky[name] {
				continue
			}
			if inc != cur {
				// a stopped controller: cancelled, and none of its handlers left
				if !waitStarted(inc) {
					s.Inconclusive("a fake controller's Start was never called within 30 s of quiescence")
				} else if ctx := inc.ctx(); ctx != nil && ctx.Err() == nil {
					s.Violate("stopped-controller-context-not-cancelled", caseName, fmt.Sprintf("controller %q (incarnation %d) is stopped but the context its Start received is not cancelled", name, inc.inc), wit(name, nil))
				}
				for _, wid := range wids {
					for _, p := range live[wid] {
						if reported[p.id] {
							continue
						}
						key := leakKey(p, sib[incWid{inc, wid}], all, "registration-on-stopped-controller:stop-left-handler")
						s.Violate(key, caseName, fmt.Sprintf("controller %q (incarnation %d) is stopped but its handler registration for watch %s is still live", name, inc.inc, widStr(wid)),
							wit(name, map[string]any{"registrations": regSummaries(sib[incWid{inc, wid}]), "running_now": obs[name].running}))
						reported[p.id] = true
					}
				}
				continue
			}
			// the running incarnation: GetWatches == live registrations, except watches
			// that were lost with their informer and wait for the next StartWatches
			for _, wid := range wids {
				if obs[name].watches[wid] {
					continue
				}
				for _, p := range live[wid] {
					if reported[p.id] {
						continue
					}
					key := leakKey(p, sib[incWid{inc, wid}], all, "live-registration-not-in-getwatches")
					if key == "registration-on-stopped-controller:startwatches-vs-stop" {
						key = "live-registration-not-in-getwatches"
					}
					s.Violate(key, caseName, fmt.Sprintf("running controller %q has a live handler registration for watch %s that GetWatches does not report", name, widStr(wid)),
						wit(name, map[string]any{"registrations": regSummaries(sib[incWid{inc, wid}]), "getwatches": obsList(obs[name])}))
					reported[p.id] = true
				}
			}
			for _, wid := range universe {
				if !obs[name].watches[wid] || len(live[wid]) > 0 {
					continue
				}
				lost := false
				for _, p := range sib[incWid{inc, wid}] {
					if p.state == regLost {
						lost = true
					}
				}
				if lost {
					qs.lostPending++
					continue
				}
				s.Violate("getwatches-reports-watch-without-registration", caseName, fmt.Sprintf("running controller %q reports watch %s but no handler registration for it is live and none was lost with its informer", name, widStr(wid)),
					wit(name, map[string]any{"registrations": regSummaries(sib[incWid{inc, wid}]), "getwatches": obsList(obs[name])}))
			}
		}
	}
	return reported
}

// finalStopCheck stops every controller and checks that nothing of it is left.
func finalStopCheck(s *sink, w *world, caseName, scenario string, names []string, all []opRec, reported map[int]bool) {
	for _, name := range names {
		name := name
		if err := w.eng.Stop(bg, name); err != nil {
			s.Count("final_stop_errors", 1)
		}
	}
	regs := w.probe()
	type incWid struct {
		inc *fakeCtrl
		wid engine.WatchID
	}
	sib := map[incWid][]probedReg{}
	for _, p := range regs {
		if p.attributed {
			sib[incWid{p.inc, p.wid}] = append(sib[incWid{p.inc, p.wid}], p)
		}
	}
	for _, p := range regs {
		if !p.attributed || p.state != regLive || reported[p.id] {
			continue
		}
		key := leakKey(p, sib[incWid{p.inc, p.wid}], all, "handler-left-after-final-stop")
		s.Violate(key, caseName, fmt.Sprintf("after stopping every controller a handler registration of %q for watch %s is still live", p.ctrl, widStr(p.wid)),
			map[string]any{"scenario": scenario, "controller": p.ctrl, "history": ctrlRecs(all, p.ctrl), "registrations": regSummaries(sib[incWid{p.inc, p.wid}])})
	}
	for _, name := range names {
		if w.eng.IsRunning(name) {
			s.Violate("running-after-final-stop", caseName, fmt.Sprintf("IsRunning(%q) is true after a sequential Stop", name), map[string]any{"scenario": scenario, "history": ctrlRecs(all, name)})
		}
		for _, inc := range w.incarnations(name) {
			if !waitStarted(inc) {
				s.Inconclusive("a fake controller's Start was never called within 30 s of the final stop")
				continue
			}
			if ctx := inc.ctx(); ctx != nil && ctx.Err() == nil {
				s.Violate("stopped-controller-context-not-cancelled", caseName, fmt.Sprintf("controller %q (incarnation %d): context not cancelled after the final Stop", name, inc.inc), map[string]any{"scenario": scenario, "history": ctrlRecs(all, name)})
			}
		}
	}
}

func b2i(b bool) int {
	if b {
		return 1
	}
	return 0
}

func obsList(o observed) any {
	if o.err != nil {
		return "error: " + o.err.Error()
	}
	var ws []engine.WatchID
	for w := range o.watches {
		ws = append(ws, w)
	}
	return widStrs(ws)
}

// observe records IsRunning and GetWatches for every name at quiescence.
func observe(r0 *recorder, names []string) map[string]observed {
	obs := map[string]observed{}
	for _, name := range names {
		o := observed{watches: map[engine.WatchID]bool{}}
		o.running = r0.IsRunning(name)
		ws, err := r0.GetWatches(name)
		o.err = err
		for _, w := range ws {
			o.watches[w] = true
		}
		obs[name] = o
	}
	return obs
}

func scanPanics(s *sink, caseName string, all []opRec) {
	for _, o := range all {
		if o.Panic != "" {
			s.Violate("panic:"+o.Kind, caseName, "an engine call panicked", map[string]any{"op": o})
		}
	}
}

// quiesce runs every quiescence-time oracle for one finished history and returns the full
// history (with the observation operations and the open internal stops).
func quiesce(s *sink, w *world, caseName, scenario string, names []string, r0 *recorder, others []*recorder, flaky map[string]bool, lr *linResult, qs *quiesceStats) []opRec {
	obs := observe(r0, names)
	all := openStops(w, mergeRecs(append([]*recorder{r0}, others...)...))
	// informers go when the CRD of their kind is deleted (the harness does that); an informer the
	// engine removes of its own accord while handlers are registered on it silences watches nobody
	// asked to stop - other controllers' among them
	if un := w.fc.takeUnsolicited(); len(un) > 0 {
		s.Violate("engine-removed-informer-under-live-registrations", caseName, fmt.Sprintf("the engine removed informer(s) although no CRD was deleted, with handler registrations still live on them: %v", un), map[string]any{"scenario": scenario, "history": r0.recs})
	}
	scanPanics(s, caseName, all)
	checkLinearizable(s, caseName, all, lr)
	reported := checkRegistrations(s, w, caseName, scenario, names, all, obs, flaky, qs)
	finalStopCheck(s, w, caseName, scenario, names, all, reported)
	return all
}

func sortedKeys[V any](m map[string]V) []string {
	out := make([]string, 0, len(m))
	for k := range m {
		out = append(out, k)
	}
	sort.Strings(out)
	return out
}

// widUniverse is every watch an incarnation ever registered plus what GetWatches reported,
// in a stable order.
func widUniverse(inc *fakeCtrl, o observed, each func(func(*fakeCtrl, engine.WatchID))) []engine.WatchID {
	set := map[engine.WatchID]bool{}
	each(func(i *fakeCtrl, w engine.WatchID) {
		if i == inc {
			set[w] = true
		}
	})
	for w := range o.watches {
		set[w] = true
	}
	out := make([]engine.WatchID, 0, len(set))
	for w := range set {
		out = append(out, w)
	}
	sort.Slice(out, func(a, b int) bool { return widStr(out[a]) < widStr(out[b]) })
	return out
}
