//go:build verif

package main

// Part (c): the REAL watch.GarbageCollector over the REAL engine, XRs served by the simulated
// API server, running watches of three types.

import (
	"context"
	"fmt"
	"k8s.io/apimachinery/pkg/apis/meta/v1/unstructured"
	"sort"

	"github.com/crossplane/crossplane/internal/engine"
	"github.com/crossplane/crossplane/verifh/kit"
	"github.com/crossplane/crossplane/verifh/sim"
)

// the collector's kinds: one version per (group, kind), so "kind" and GVK coincide; two
// groups share the kind name Bucket.
var gcPool = []gvkT{
	{Group: "s3.example.org", Version: "v1", Kind: "Bucket"},
	{Group: "gcs.example.org", Version: "v1", Kind: "Bucket"},
	{Group: "sqs.example.org", Version: "v1beta1", Kind: "Queue"},
	{Group: "db.example.org", Version: "v1", Kind: "Table"},
	{Group: "", Version: "v1", Kind: "ConfigMap"},
	{Group: "nested.example.org", Version: "v1", Kind: "XNested"},
}

func runGC(s *sink, c *kit.Ctx, i int, st *detStats) {
	caseName := fmt.Sprintf("gc/%d", i)
	rng := c.Rng("gc", i)
	name := ctrlNames[rng.IntN(len(ctrlNames))]
	xr := xrGVK(name)
	otherXR := xrGVK(ctrlNames[(indexOf(ctrlNames, name)+1)%len(ctrlNames)])

	sw := sim.NewWorld(theScheme, uint64(i)+1)
	ec := sw.Client("engine-cache")
	w := newWorld(worldPlain, ec)
	r0 := &recorder{w: w, g: -1}

	// XRs of this controller and their references (the oracle's input, kept as generated)
	referenced := map[gvkT]bool{}
	nXR := rng.IntN(6)
	var xrDesc []string
	for k := 0; k < nXR; k++ {
		var refs []any
		for _, g := range gcPool {
			if rng.IntN(3) == 0 {
				refs = append(refs, map[string]any{"apiVersion": g.GroupVersion().String(), "kind": g.Kind, "name": fmt.Sprintf("c%d", k)})
				referenced[g] = true
				xrDesc = append(xrDesc, fmt.Sprintf("xr-%d->%s.%s", k, g.Kind, g.Group))
			}
		}
		md := map[string]any{"name": fmt.Sprintf("xr-%d", k)}
		terminating := rng.IntN(4) == 0
		if terminating {
			// an XR that is being deleted but still exists (held by its finalizer) still references
			// its composed resources
			md["finalizers"] = []any{"composite.apiextensions.crossplane.io"}
		}
		o := map[string]any{"apiVersion": xr.GroupVersion().String(), "kind": xr.Kind, "metadata": md, "spec": map[string]any{}}
		if refs != nil || rng.IntN(2) == 0 {
			if refs == nil {
				refs = []any{}
			}
			o["spec"] = map[string]any{"resourceRefs": refs}
		}
		sw.MustSeed("user", o)
		if terminating {
			_ = sw.Client("user").Delete(context.Background(), &unstructured.Unstructured{Object: o})
			s.Count("gc.xrs_terminating", 1)
		}
	}
	// XRs of ANOTHER controller reference kinds too; they must not keep this one's watches
	for k := 0; k < rng.IntN(3); k++ {
		g := gcPool[rng.IntN(len(gcPool))]
		sw.MustSeed("user", map[string]any{"apiVersion": otherXR.GroupVersion().String(), "kind": otherXR.Kind, "metadata": map[string]any{"name": fmt.Sprintf("other-%d", k)},
			"spec": map[string]any{"resourceRefs": []any{map[string]any{"apiVersion": g.GroupVersion().String(), "kind": g.Kind, "name": "x"}}}})
		xrDesc = append(xrDesc, fmt.Sprintf("OTHER-%d->%s.%s", k, g.Kind, g.Group))
	}

	// running watches of three types
	var running []engine.WatchID
	if rng.IntN(100) < 85 {
		running = append(running, xrWatch(name))
	}
	if rng.IntN(100) < 85 {
		running = append(running, revWatch())
	}
	for _, g := range gcPool {
		if rng.IntN(100) < 60 {
			running = append(running, composedWatch(g))
		}
	}
	_ = r0.Start(name, ncOK, false)
	if len(running) > 0 {
		if err := r0.StartWatches(name, running...); err != nil {
			s.Inconclusive("gc set-up: StartWatches failed: " + err.Error())
			return
		}
	}
	before, _ := w.eng.GetWatches(name)
	// in a fifth of the cases the collector's listing of the XRs fails (plain API errors and the
	// errors of a discovery layer that hiccups): then it must not collect anything
	listFault := ""
	if rng.IntN(5) == 0 {
		out := []sim.Outcome{sim.ServerError, sim.Timeout, sim.NotServed, sim.Unavailable, sim.Missing}[rng.IntN(5)]
		listFault = out.String()
		ec.FaultFn = func(_ int, verb string, _ sim.Key) sim.Outcome {
			if verb == "list" {
				return out
			}
			return sim.OK
		}
		s.Count("gc.cases_with_failing_xr_list", 1)
	}
	err := r0.GC(name)
	ec.FaultFn = nil
	after, _ := w.eng.GetWatches(name)
	s.Count("gc.cases", 1)
	s.Count("gc.xrs_listed", int64(nXR))
	if err != nil {
		s.Count("gc.returned_error", 1)
	}

	afterSet := map[engine.WatchID]bool{}
	for _, x := range after {
		afterSet[x] = true
	}
	sort.Slice(before, func(a, b int) bool { return widStr(before[a]) < widStr(before[b]) })
	var handed []string
	for _, o := range r0.recs {
		if o.Inner && o.Kind == "StopWatches" {
			handed = o.Arg
		}
	}
	wit := func(x engine.WatchID) map[string]any {
		n, rel := liveCount(w, name, x)
		return map[string]any{"controller": name, "xr_kind": xr.String(), "xr_references": xrDesc, "watches_before": widStrs(before), "watches_after": widStrs(after),
			"handed_to_StopWatches": handed, "watch": widStr(x), "live_registrations_now": n, "registrations": regSummaries(rel), "gc_error": fmt.Sprint(err)}
	}
	if listFault != "" {
		// the listing failed: whatever the collector returns, every watch that ran before still runs
		for _, x := range before {
			if live, _ := liveCount(w, name, x); !afterSet[x] || live == 0 {
				wt := wit(x)
				wt["xr_list_failed_with"] = listFault
				s.Violate("gc-stops-watch-although-listing-xrs-failed", caseName, fmt.Sprintf("the collector could not list the XRs (%s) yet the %s watch on %s was stopped", listFault, x.Type, x.GVK.String()), wt)
			}
		}
	} else if err == nil {
		for _, x := range before {
			stopped := !afterSet[x]
			live, _ := liveCount(w, name, x)
			if stopped != (live == 0) {
				s.Count("gc.getwatches_vs_registrations_disagree", 1)
			}
			switch {
			case x.Type != engine.WatchTypeComposedResource:
				s.Count("gc.non_composed_watches_seen", 1)
				if stopped || live == 0 {
					s.Violate("gc-stops-non-composed-watch", caseName, fmt.Sprintf("GarbageCollectWatchesNow stopped the %s watch on %s; only composed-resource watches may be collected", x.Type, x.GVK.Kind), wit(x))
				}
			case referenced[x.GVK]:
				s.Count("gc.referenced_composed_watches_seen", 1)
				if stopped || live == 0 {
					s.Violate("gc-stops-referenced-composed-watch", caseName, fmt.Sprintf("GarbageCollectWatchesNow stopped the composed-resource watch on %s although an XR still references that kind", x.GVK.String()), wit(x))
				}
			default:
				s.Count("gc.unreferenced_composed_watches_seen", 1)
				if !stopped || live != 0 {
					s.Violate("gc-keeps-unreferenced-composed-watch", caseName, fmt.Sprintf("GarbageCollectWatchesNow left the composed-resource watch on %s running although no XR of the controller references that kind", x.GVK.String()), wit(x))
				}
			}
		}
		for _, x := range after {
			found := false
			for _, y := range before {
				found = found || x == y
			}
			if !found {
				s.Violate("gc-starts-watch", caseName, "a watch appeared during garbage collection", wit(x))
			}
		}
	}
	all := quiesce(s, w, caseName, "collector", []string{name}, r0, nil, nil, &st.lin, &st.qs)
	s.Eval(fmt.Sprintf("gc|%s|%v|%v", name, xrDesc, widStrs(running)), false)
	opsByType(all, st.ops)
	if i == 0 {
		s.Sample(map[string]any{"case": caseName, "xr_references": xrDesc, "watches_before": widStrs(before), "watches_after": widStrs(after), "handed_to_StopWatches": handed})
	}
}
