//go:build verif

package main

// sink collects what one child process measured; the parent replays it into the kit context.

import (
	"encoding/json"
	"os"
	"sync"

	"github.com/crossplane/crossplane/verifh/kit"
)

type evalRec struct {
	FP string `json:"fp"`
	NT bool   `json:"nt"`
}

type sink struct {
	mu sync.Mutex

	Evals        []evalRec        `json:"evals"`
	Counters     map[string]int64 `json:"counters"`
	Violations   []kit.Violation  `json:"violations"`
	Inconcl      []string         `json:"inconclusive"`
	Samples      []any            `json:"samples"`
	Extras       map[string]any   `json:"extras"`
	OverlapKinds map[string]int64 `json:"overlap_kinds"`
	Done         bool             `json:"done"`

	maxSamples int
}

func newSink() *sink {
	return &sink{Counters: map[string]int64{}, Extras: map[string]any{}, OverlapKinds: map[string]int64{}, maxSamples: 2}
}

func (s *sink) Eval(fp string, nontrivial bool) {
	s.mu.Lock()
	defer s.mu.Unlock()
	s.Evals = append(s.Evals, evalRec{FP: kit.Hash(fp), NT: nontrivial})
}

func (s *sink) Count(name string, n int64) {
	s.mu.Lock()
	defer s.mu.Unlock()
	s.Counters[name] += n
}

func (s *sink) Violate(key, caseName, what string, witness any) {
	s.mu.Lock()
	defer s.mu.Unlock()
	s.Counters["alarm."+key]++
	for _, v := range s.Violations {
		if v.Key == key {
			return
		}
	}
	s.Violations = append(s.Violations, kit.Violation{Key: key, What: what, Case: caseName, Witness: witness})
}

func (s *sink) Inconclusive(reason string) {
	s.mu.Lock()
	defer s.mu.Unlock()
	if len(s.Inconcl) < 20 {
		s.Inconcl = append(s.Inconcl, reason)
	}
}

func (s *sink) WantSample() bool {
	s.mu.Lock()
	defer s.mu.Unlock()
	return len(s.Samples) < s.maxSamples
}

func (s *sink) Sample(v any) {
	s.mu.Lock()
	defer s.mu.Unlock()
	if len(s.Samples) < s.maxSamples {
		s.Samples = append(s.Samples, v)
	}
}

func (s *sink) write(path string) {
	s.mu.Lock()
	defer s.mu.Unlock()
	b, _ := json.Marshal(s)
	tmp := path + ".tmp"
	if err := os.WriteFile(tmp, b, 0o644); err == nil {
		_ = os.Rename(tmp, path)
	}
}
