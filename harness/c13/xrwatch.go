//go:build verif

package main

// Part (f): the production-wired XR reconciler (realtime compositions on) over the REAL engine
// and the REAL watch garbage collector. "A watch lost ... is re-established by the next start
// request": the XR reconciler is what issues the start requests, once per reconcile, for every
// kind its XR references.

import (
	"context"
	"fmt"

	"k8s.io/apimachinery/pkg/apis/meta/v1/unstructured"
	"k8s.io/apimachinery/pkg/runtime"
	"k8s.io/apimachinery/pkg/runtime/schema"
	"k8s.io/apimachinery/pkg/types"
	"sigs.k8s.io/controller-runtime/pkg/reconcile"

	"github.com/crossplane/crossplane-runtime/pkg/resource"

	"github.com/crossplane/crossplane/internal/controller/apiextensions/composite"
	"github.com/crossplane/crossplane/internal/controller/apiextensions/composite/watch"
	"github.com/crossplane/crossplane/internal/controller/apiextensions/definition"
	"github.com/crossplane/crossplane/internal/engine"
	"github.com/crossplane/crossplane/internal/features"
	"github.com/crossplane/crossplane/internal/xfn"
	"github.com/crossplane/crossplane/verifh/kit"
	"github.com/crossplane/crossplane/verifh/sim"
	"github.com/crossplane/crossplane/verifh/xrk"
)

func runXRWatchStarter(s *sink, c *kit.Ctx, i int) {
	caseName := fmt.Sprintf("xr-watch-starter/%d", i)
	bgc := context.Background()
	w := sim.NewWorld(xrk.Scheme(), uint64(c.Seed)*233+uint64(i))
	xrd := xrk.XRDObject(xrk.XRDOpts{Group: "ex.org", Kind: "XThing", Plural: "xthings"})
	w.MustSeed("user", xrd)
	tmpl := func(kinds ...string) []map[string]any {
		var ts []map[string]any
		for _, k := range kinds {
			ts = append(ts, map[string]any{"name": "t-" + k, "base": map[string]any{"apiVersion": "nop.ex.org/v1", "kind": k, "spec": map[string]any{"forProvider": map[string]any{"v": k}}},
				"readinessChecks": []any{map[string]any{"type": "None"}}})
		}
		return ts
	}
	first := tmpl("NopA", "NopB")
	if i%3 == 2 {
		// two templates of the SAME kind: the XR references two NopA resources
		extra := tmpl("NopA")[0]
		extra["name"] = "t-NopA-second"
		first = append(first, extra)
	}
	w.MustSeed("user", xrk.ResourcesComposition("comp", "ex.org/v1", "XThing", first))
	if err := xrk.ReconcileComposition(w, "comp"); err != nil {
		panic(err)
	}
	w.MustSeed("user", xrk.XRObject("ex.org/v1", "XThing", "xr1", "comp", map[string]any{"compositionUpdatePolicy": "Automatic"}))

	xc := w.Client("xr")
	re := xrk.NewRealEngine(w, xc)
	opts := xrk.Options(false)
	opts.Features.Enable(features.EnableAlphaRealtimeCompositions)
	opts.FunctionRunner = xfn.NewPackagedFunctionRunner(xc)
	dr := definition.NewReconciler(definition.NewClientApplicator(w.Client("definition")), definition.WithControllerEngine(re), definition.WithOptions(opts))
	name := composite.ControllerName("xthings.ex.org")
	for k := 0; k < 3 && re.Reconciler(name) == nil; k++ {
		if _, err := dr.Reconcile(bgc, reconcile.Request{NamespacedName: types.NamespacedName{Name: "xthings.ex.org"}}); err != nil {
			s.Inconclusive("xr-watch-starter: definition reconcile failed: " + err.Error())
			return
		}
		xrk.EstablishCRDs(w)
	}
	r := re.Reconciler(name)
	if r == nil {
		s.Inconclusive("xr-watch-starter: the definition controller did not start an XR controller")
		return
	}
	xrGVKv := schema.GroupVersionKind{Group: "ex.org", Version: "v1", Kind: "XThing"}
	gc := watch.NewGarbageCollector(name, resource.CompositeKind(xrGVKv), re)
	recXR := func() {
		for k := 0; k < 2; k++ {
			_, _ = r.Reconcile(bgc, reconcile.Request{NamespacedName: types.NamespacedName{Name: "xr1"}})
		}
	}
	setTemplates := func(kinds ...string) {
		comp := &unstructured.Unstructured{Object: w.GetObj(sim.Key{Group: "apiextensions.crossplane.io", Kind: "Composition", Name: "comp"})}
		var rs []any
		for _, t := range tmpl(kinds...) {
			rs = append(rs, runtime.DeepCopyJSONValue(t))
		}
		_ = unstructured.SetNestedSlice(comp.Object, rs, "spec", "resources")
		if err := w.Client("user").Update(bgc, comp); err != nil {
			panic(err)
		}
		if err := xrk.ReconcileComposition(w, "comp"); err != nil {
			panic(err)
		}
	}
	composedWatched := func(kind string) bool {
		ws, _ := re.GetWatches(name)
		for _, x := range ws {
			if x.Type == engine.WatchTypeComposedResource && x.GVK.Kind == kind {
				return true
			}
		}
		return false
	}
	var steps []string
	check := func(step string, kinds ...string) {
		steps = append(steps, step)
		// at most one live watch (handler registration) per controller, watch type and kind: this
		// engine runs ONE controller with one watch type per composed kind
		for kind, n := range re.Infs.LiveByKind() {
			if n > 1 && (kind == "NopA" || kind == "NopB") {
				s.Violate("dup-registration:xr-reconciler-startwatches", caseName, fmt.Sprintf("%s: %d live handler registrations on the %s informer for one controller and watch type", step, n, kind),
					map[string]any{"history": steps, "live_by_kind": re.Infs.LiveByKind()})
			}
		}
		for _, k := range kinds {
			if !composedWatched(k) {
				ws, _ := re.GetWatches(name)
				var wl []string
				for _, x := range ws {
					wl = append(wl, string(x.Type)+":"+x.GVK.Kind)
				}
				s.Violate("xr-references-kind-without-watch-after-reconcile", caseName, fmt.Sprintf("%s: the XR references a %s and was reconciled, but its controller has no composed-resource watch for that kind (watches: %v)", step, k, wl),
					map[string]any{"history": steps, "watches": wl})
			}
		}
	}
	// 1. the XR composes NopA and NopB
	recXR()
	check("XR composed NopA and NopB", "NopA", "NopB")
	// 2. NopA stops being composed; the collector runs
	drop := []string{"NopA", "NopB"}[i%2]
	keep := []string{"NopB", "NopA"}[i%2]
	setTemplates(keep)
	recXR()
	_ = gc.GarbageCollectWatchesNow(bgc)
	check("template of "+drop+" removed, XR reconciled, collector ran", keep)
	if composedWatched(drop) {
		s.Count("xr_watch_starter.unreferenced_watch_left_by_collector", 1)
	}
	// 3. ... and is composed again
	setTemplates("NopA", "NopB")
	recXR()
	check("template of "+drop+" added again, XR reconciled", "NopA", "NopB")
	// 4. the informer of a referenced kind goes away (its CRD was re-installed); next reconcile
	u := &unstructured.Unstructured{}
	u.SetAPIVersion("nop.ex.org/v1")
	u.SetKind(keep)
	_ = re.Infs.RemoveInformer(bgc, u)
	recXR()
	check("informer of "+keep+" removed, XR reconciled", "NopA", "NopB")
	_ = re.Stop(bgc, name)
	if stopped, ok := re.TrulyStopped(name); ok && !stopped {
		s.Violate("handler-left-after-stop:xr-reconciler-startwatches", caseName, fmt.Sprintf("after Stop the controller's informers still hold live handlers: %v", re.Infs.LiveByKind()), map[string]any{"history": steps})
	}
	s.Eval(fmt.Sprintf("xr-watch-starter|%d|%s", i, drop), true)
	s.Count("xr_watch_starter.cases", 1)
}
