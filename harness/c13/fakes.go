//go:build verif

package main

// Fakes at the edges of the real engine: manager, cache/informers (handler registrations are
// tracked and can be probed), controller (records Start(ctx) and Watch calls), a tagged
// handler.EventHandler and a read-only client. Everything the engine can reach from several
// goroutines is guarded by a mutex or immutable.

import (
	"context"
	"errors"
	"sort"
	"strconv"
	"strings"
	"sync"
	"sync/atomic"
	"time"

	extv1 "k8s.io/apiextensions-apiserver/pkg/apis/apiextensions/v1"
	kerrors "k8s.io/apimachinery/pkg/api/errors"
	metav1 "k8s.io/apimachinery/pkg/apis/meta/v1"
	kunstructured "k8s.io/apimachinery/pkg/apis/meta/v1/unstructured"
	"k8s.io/apimachinery/pkg/runtime"
	"k8s.io/apimachinery/pkg/runtime/schema"
	toolscache "k8s.io/client-go/tools/cache"
	"k8s.io/client-go/util/workqueue"
	"sigs.k8s.io/controller-runtime/pkg/cache"
	"sigs.k8s.io/controller-runtime/pkg/client"
	"sigs.k8s.io/controller-runtime/pkg/client/apiutil"
	kcontroller "sigs.k8s.io/controller-runtime/pkg/controller"
	"sigs.k8s.io/controller-runtime/pkg/event"
	"sigs.k8s.io/controller-runtime/pkg/manager"
	"sigs.k8s.io/controller-runtime/pkg/reconcile"
	"sigs.k8s.io/controller-runtime/pkg/source"

	v1 "github.com/crossplane/crossplane/apis/apiextensions/v1"
	"github.com/crossplane/crossplane/internal/engine"
)

type gvkT = schema.GroupVersionKind

// ---------------------------------------------------------------- manager

type fakeManager struct {
	manager.Manager
	scheme  *runtime.Scheme
	elected chan struct{}
}

func (m *fakeManager) Elected() <-chan struct{}   { return m.elected }
func (m *fakeManager) GetScheme() *runtime.Scheme { return m.scheme }

// ---------------------------------------------------------------- cache and informers

// fakeCache is the cache.Cache wrapped by the REAL engine.InformerTrackingCache. It keeps one
// informer instance per GVK; RemoveInformer stops the instance (all of its registrations die
// with it, as with a real shared informer) and the next GetInformer creates a new instance.
type fakeCache struct {
	cache.Cache
	scheme *runtime.Scheme

	mu       sync.Mutex
	cur      map[gvkT]*fakeInformer
	all      []*fakeInformer
	regs     []*fakeReg
	removals int
	// injected informer faults: the next n RemoveEventHandler / GetInformer calls for a kind fail
	failRemove map[gvkT]int
	failGet    map[gvkT]int
	// beforeRemove, if set, runs when the wrapped cache's RemoveInformer is entered (before the
	// informer instance is stopped): the window between the tracking cache's bookkeeping and the
	// removal itself
	beforeRemove func(gvk gvkT)
	// unsolicited lists informer removals that did not come from the harness (a removal the harness
	// asks for - a CRD was deleted - travels with the solicited marker in its context) and that took
	// live handler registrations down with them
	unsolicited []string
}

type solicitedKey struct{}

// solicited marks ctx as belonging to an informer removal the harness asked for.
func solicited(ctx context.Context) context.Context {
	return context.WithValue(ctx, solicitedKey{}, true)
}

func (f *fakeCache) takeUnsolicited() []string {
	f.mu.Lock()
	defer f.mu.Unlock()
	out := f.unsolicited
	f.unsolicited = nil
	return out
}

// failNext plans informer faults for a kind.
func (f *fakeCache) failNext(gvk gvkT, removes, gets int) {
	f.mu.Lock()
	defer f.mu.Unlock()
	if f.failRemove == nil {
		f.failRemove, f.failGet = map[gvkT]int{}, map[gvkT]int{}
	}
	f.failRemove[gvk] += removes
	f.failGet[gvk] += gets
}

func newFakeCache(s *runtime.Scheme) *fakeCache {
	return &fakeCache{scheme: s, cur: map[gvkT]*fakeInformer{}}
}

func (f *fakeCache) GetInformer(ctx context.Context, obj client.Object, opts ...cache.InformerGetOption) (cache.Informer, error) {
	gvk, err := apiutil.GVKForObject(obj, f.scheme)
	if err != nil {
		return nil, err
	}
	return f.GetInformerForKind(ctx, gvk, opts...)
}

func (f *fakeCache) GetInformerForKind(_ context.Context, gvk gvkT, _ ...cache.InformerGetOption) (cache.Informer, error) {
	f.mu.Lock()
	defer f.mu.Unlock()
	if f.failGet[gvk] > 0 {
		f.failGet[gvk]--
		return nil, errors.New("injected: cannot get informer")
	}
	if i := f.cur[gvk]; i != nil {
		return i, nil
	}
	i := &fakeInformer{fc: f, gvk: gvk, gen: len(f.all)}
	f.all = append(f.all, i)
	f.cur[gvk] = i
	return i, nil
}

// Get and List behave like the controller-runtime cache for a reader: they start the
// informer of the kind if there is none, then answer from an empty store.
func (f *fakeCache) Get(ctx context.Context, key client.ObjectKey, obj client.Object, _ ...client.GetOption) error {
	gvk, err := apiutil.GVKForObject(obj, f.scheme)
	if err != nil {
		return err
	}
	_, _ = f.GetInformerForKind(ctx, gvk)
	return kerrors.NewNotFound(schema.GroupResource{Group: gvk.Group, Resource: strings.ToLower(gvk.Kind) + "s"}, key.Name)
}

func (f *fakeCache) List(ctx context.Context, list client.ObjectList, _ ...client.ListOption) error {
	gvk, err := apiutil.GVKForObject(list, f.scheme)
	if err != nil {
		return err
	}
	gvk.Kind = strings.TrimSuffix(gvk.Kind, "List")
	_, _ = f.GetInformerForKind(ctx, gvk)
	return nil
}

func (f *fakeCache) RemoveInformer(ctx context.Context, obj client.Object) error {
	gvk, err := apiutil.GVKForObject(obj, f.scheme)
	if err != nil {
		return err
	}
	// controller-runtime keeps separate informers for typed, unstructured and metadata-only
	// objects of one kind: removing by a metadata-only object does not touch the informer the
	// watches (started with typed / unstructured objects) live on
	if _, metaOnly := obj.(*metav1.PartialObjectMetadata); metaOnly {
		f.mu.Lock()
		f.removals++
		f.mu.Unlock()
		return nil
	}
	f.mu.Lock()
	hook := f.beforeRemove
	f.mu.Unlock()
	if hook != nil {
		hook(gvk)
	}
	f.mu.Lock()
	defer f.mu.Unlock()
	if i := f.cur[gvk]; i != nil && ctx.Value(solicitedKey{}) == nil {
		live := 0
		for _, r := range f.regs {
			if r.inf == i && !r.removed {
				live++
			}
		}
		if live > 0 {
			f.unsolicited = append(f.unsolicited, gvk.Kind+"."+gvk.Version+"."+gvk.Group+" ("+strconv.Itoa(live)+" live handler registration(s) on it)")
		}
	}
	if i := f.cur[gvk]; i != nil {
		i.stopped = true
		delete(f.cur, gvk)
	}
	f.removals++
	return nil
}

// fakeInformer implements cache.Informer. All state is guarded by fc.mu.
type fakeInformer struct {
	fc      *fakeCache
	gvk     gvkT
	gen     int
	stopped bool
}

// fakeReg is one handler registration.
type fakeReg struct {
	id      int
	inf     *fakeInformer
	h       toolscache.ResourceEventHandler
	removed bool
}

func (r *fakeReg) HasSynced() bool { return true }

func (i *fakeInformer) AddEventHandler(h toolscache.ResourceEventHandler) (toolscache.ResourceEventHandlerRegistration, error) {
	i.fc.mu.Lock()
	defer i.fc.mu.Unlock()
	if i.stopped {
		// client-go: "handler ... was not added to shared informer because it has stopped already"
		return nil, errors.New("handler was not added to shared informer because it has stopped already")
	}
	r := &fakeReg{id: len(i.fc.regs), inf: i, h: h}
	i.fc.regs = append(i.fc.regs, r)
	return r, nil
}

func (i *fakeInformer) AddEventHandlerWithResyncPeriod(h toolscache.ResourceEventHandler, _ time.Duration) (toolscache.ResourceEventHandlerRegistration, error) {
	return i.AddEventHandler(h)
}

// RemoveEventHandler is idempotent; an unknown handle (one of a removed informer instance)
// is a no-op, as in client-go.
func (i *fakeInformer) RemoveEventHandler(handle toolscache.ResourceEventHandlerRegistration) error {
	r, ok := handle.(*fakeReg)
	if !ok {
		return errors.New("invalid registration handle")
	}
	i.fc.mu.Lock()
	defer i.fc.mu.Unlock()
	if r.inf != i {
		return nil
	}
	if i.fc.failRemove[i.gvk] > 0 {
		i.fc.failRemove[i.gvk]--
		return errors.New("injected: cannot remove event handler")
	}
	r.removed = true
	return nil
}

func (i *fakeInformer) AddIndexers(toolscache.Indexers) error { return nil }
func (i *fakeInformer) HasSynced() bool                       { return true }
func (i *fakeInformer) IsStopped() bool {
	i.fc.mu.Lock()
	defer i.fc.mu.Unlock()
	return i.stopped
}

// regState is how one registration ended up.
type regState string

const (
	regLive    regState = "live"               // on the current informer instance, not removed
	regRemoved regState = "removed"            // RemoveEventHandler was called for it
	regLost    regState = "lost-with-informer" // its informer instance was removed
)

type regSnap struct {
	id    int
	gvk   gvkT
	gen   int
	state regState
	h     toolscache.ResourceEventHandler
}

// snapshot lists every registration ever made with its state.
func (f *fakeCache) snapshot() []regSnap {
	f.mu.Lock()
	defer f.mu.Unlock()
	out := make([]regSnap, 0, len(f.regs))
	for _, r := range f.regs {
		st := regLive
		switch {
		case r.removed:
			st = regRemoved
		case r.inf.stopped:
			st = regLost
		}
		out = append(out, regSnap{id: r.id, gvk: r.inf.gvk, gen: r.inf.gen, state: st, h: r.h})
	}
	return out
}

func (f *fakeCache) activeInstances() map[gvkT]int {
	f.mu.Lock()
	defer f.mu.Unlock()
	out := map[gvkT]int{}
	for g, i := range f.cur {
		out[g] = i.gen
	}
	return out
}

// ---------------------------------------------------------------- TrackingInformers wrappers

// parkInformers wraps the REAL InformerTrackingCache. ActiveInformers first asks the real
// cache and then, when armed, parks the caller: exactly the point in StartWatches after the
// controller was fetched and the active set computed, before the controller lock is taken.
type parkInformers struct {
	*engine.InformerTrackingCache
	armed   atomic.Int32
	parked  chan struct{}
	release chan struct{}
}

func newParkInformers(itc *engine.InformerTrackingCache) *parkInformers {
	return &parkInformers{InformerTrackingCache: itc, parked: make(chan struct{}, 1), release: make(chan struct{})}
}

func (p *parkInformers) ActiveInformers() []gvkT {
	a := p.InformerTrackingCache.ActiveInformers()
	if p.armed.CompareAndSwap(1, 0) {
		p.parked <- struct{}{}
		<-p.release
	}
	return a
}

// yieldInformers widens the same window in the stress part without adding synchronisation.
type yieldInformers struct {
	*engine.InformerTrackingCache
}

func (y *yieldInformers) ActiveInformers() []gvkT {
	a := y.InformerTrackingCache.ActiveInformers()
	yield()
	return a
}

// ---------------------------------------------------------------- controller

// fakeQueue identifies the controller incarnation a source was started for.
type fakeQueue struct {
	workqueue.TypedRateLimitingInterface[reconcile.Request]
	ctrl *fakeCtrl
}

// fakeCtrl is one controller incarnation created through the NewControllerFn option.
type fakeCtrl struct {
	kcontroller.Controller
	name        string
	inc         int // incarnation number for this name
	failAsync   bool
	inflight    bool
	errOnCancel bool
	returned    chan struct{} // closed when Start has returned after a cancellation
	w           *world
	q           *fakeQueue

	mu         sync.Mutex
	startCtx   context.Context
	started    chan struct{}
	watchCalls int
	failStamp  int64
}

func (f *fakeCtrl) Start(ctx context.Context) error {
	f.mu.Lock()
	f.startCtx = ctx
	f.mu.Unlock()
	if f.failAsync {
		// The engine reacts with an internal Stop(name): an operation that starts now and
		// whose end the harness cannot see.
		st := f.w.clock.Add(1)
		f.mu.Lock()
		f.failStamp = st
		f.mu.Unlock()
		close(f.started)
		return errors.New("injected: controller failed to start")
	}
	close(f.started)
	<-ctx.Done()
	if f.inflight {
		_ = f.w.eng.StartWatches(f.name, f.w.watchFor(f.name, xrWatch(f.name), f.w.clock.Add(1)))
	}
	defer close(f.returned)
	if f.errOnCancel {
		return errors.New("failed to wait for caches to sync: context canceled (scripted)")
	}
	return nil
}

func (f *fakeCtrl) Watch(src source.TypedSource[reconcile.Request]) error {
	f.mu.Lock()
	f.watchCalls++
	f.mu.Unlock()
	return src.Start(context.Background(), f.q)
}

func (f *fakeCtrl) ctx() context.Context {
	f.mu.Lock()
	defer f.mu.Unlock()
	return f.startCtx
}

func (f *fakeCtrl) failedAt() int64 {
	f.mu.Lock()
	defer f.mu.Unlock()
	return f.failStamp
}

// ---------------------------------------------------------------- tagged event handler

// tagHandler is the handler.EventHandler of every watch the harness starts. Firing a create
// event at a registration reaches it and tells which (controller, watch) the registration
// serves and which StartWatches call made it.
type tagHandler struct {
	ctrl string
	wid  engine.WatchID
	op   int64 // call stamp of the StartWatches operation that supplied it
	sink *probeSink
}

type probeHit struct {
	h *tagHandler
	q *fakeQueue
}

type probeSink struct {
	mu   sync.Mutex
	hits []probeHit
}

func (s *probeSink) take() []probeHit {
	s.mu.Lock()
	defer s.mu.Unlock()
	h := s.hits
	s.hits = nil
	return h
}

func (h *tagHandler) Create(_ context.Context, _ event.CreateEvent, q workqueue.TypedRateLimitingInterface[reconcile.Request]) {
	fq, _ := q.(*fakeQueue)
	h.sink.mu.Lock()
	h.sink.hits = append(h.sink.hits, probeHit{h: h, q: fq})
	h.sink.mu.Unlock()
}
func (h *tagHandler) Update(context.Context, event.UpdateEvent, workqueue.TypedRateLimitingInterface[reconcile.Request]) {
}
func (h *tagHandler) Delete(context.Context, event.DeleteEvent, workqueue.TypedRateLimitingInterface[reconcile.Request]) {
}
func (h *tagHandler) Generic(context.Context, event.GenericEvent, workqueue.TypedRateLimitingInterface[reconcile.Request]) {
}

// ---------------------------------------------------------------- read-only client

// staticClient serves immutable lists of unstructured objects (the XRs the collector lists
// in the stress part). It takes no lock, so it adds no happens-before edges.
type staticClient struct {
	client.Client
	items map[schema.GroupKind][]map[string]any
}

func (s *staticClient) List(_ context.Context, list client.ObjectList, _ ...client.ListOption) error {
	ul, ok := list.(*kunstructured.UnstructuredList)
	if !ok {
		return errors.New("staticClient: only unstructured lists")
	}
	gvk := ul.GroupVersionKind()
	gvk.Kind = strings.TrimSuffix(gvk.Kind, "List")
	ul.Items = nil
	for _, it := range s.items[gvk.GroupKind()] {
		ul.Items = append(ul.Items, kunstructured.Unstructured{Object: runtime.DeepCopyJSON(it)})
	}
	return nil
}

// ---------------------------------------------------------------- world

const (
	ncOK = iota
	ncSyncFail
	ncAsyncFail
	// ncInflight: like a controller-runtime controller, Start returns only after its workers are
	// done, and one reconcile is in flight when the context is cancelled: it goes on to ask the
	// engine for a watch (as the XR reconciler does in every reconcile) before it returns
	ncInflight
	// ncErrOnCancel: Start returns an ERROR when its context is cancelled, as controller-runtime's
	// does when the controller is stopped while it still waits for its caches to sync
	ncErrOnCancel
)

// world is one real engine with its fakes.
type world struct {
	scheme *runtime.Scheme
	mgr    *fakeManager
	fc     *fakeCache
	itc    *engine.InformerTrackingCache
	park   *parkInformers
	eng    *engine.ControllerEngine
	clock  *atomic.Int64
	sink   *probeSink

	mu        sync.Mutex
	incs      map[string][]*fakeCtrl
	syncFails int
}

type worldMode int

const (
	worldPlain worldMode = iota
	worldYield
	worldPark
)

var theScheme = func() *runtime.Scheme {
	s := runtime.NewScheme()
	if err := v1.SchemeBuilder.AddToScheme(s); err != nil {
		panic(err)
	}
	if err := extv1.AddToScheme(s); err != nil {
		panic(err)
	}
	return s
}()

func newWorld(mode worldMode, cached client.Client) *world {
	w := &world{scheme: theScheme, clock: &atomic.Int64{}, sink: &probeSink{}, incs: map[string][]*fakeCtrl{}}
	el := make(chan struct{})
	close(el)
	w.mgr = &fakeManager{scheme: w.scheme, elected: el}
	w.fc = newFakeCache(w.scheme)
	w.itc = engine.TrackInformers(w.fc, w.scheme)
	var infs engine.TrackingInformers = w.itc
	switch mode {
	case worldPark:
		w.park = newParkInformers(w.itc)
		infs = w.park
	case worldYield:
		infs = &yieldInformers{InformerTrackingCache: w.itc}
	}
	w.eng = engine.New(w.mgr, infs, cached, cached)
	return w
}

// ncFn is the NewControllerFn handed to one Start call.
func (w *world) ncFn(mode int) engine.NewControllerFn {
	return func(name string, _ manager.Manager, _ kcontroller.Options) (kcontroller.Controller, error) {
		w.mu.Lock()
		defer w.mu.Unlock()
		if mode == ncSyncFail {
			w.syncFails++
			return nil, errors.New("injected: cannot create controller")
		}
		fc := &fakeCtrl{name: name, inc: len(w.incs[name]), failAsync: mode == ncAsyncFail, inflight: mode == ncInflight, errOnCancel: mode == ncErrOnCancel, returned: make(chan struct{}), w: w, started: make(chan struct{})}
		fc.q = &fakeQueue{ctrl: fc}
		w.incs[name] = append(w.incs[name], fc)
		return fc, nil
	}
}

func (w *world) incarnations(name string) []*fakeCtrl {
	w.mu.Lock()
	defer w.mu.Unlock()
	return append([]*fakeCtrl(nil), w.incs[name]...)
}

func (w *world) names() []string {
	w.mu.Lock()
	defer w.mu.Unlock()
	out := make([]string, 0, len(w.incs))
	for n := range w.incs {
		out = append(out, n)
	}
	sort.Strings(out)
	return out
}

// kindObject returns the object a Watch is built for.
func kindObject(gvk gvkT) client.Object {
	if gvk == v1.CompositionRevisionGroupVersionKind {
		return &v1.CompositionRevision{}
	}
	u := &kunstructured.Unstructured{}
	u.SetGroupVersionKind(gvk)
	return u
}

func (w *world) watchFor(ctrl string, wid engine.WatchID, op int64) engine.Watch {
	return engine.WatchFor(kindObject(wid.GVK), wid.Type, &tagHandler{ctrl: ctrl, wid: wid, op: op, sink: w.sink})
}

// probedReg is a registration attributed to its controller incarnation and watch.
type probedReg struct {
	regSnap
	attributed bool
	ctrl       string
	inc        *fakeCtrl
	wid        engine.WatchID
	op         int64
}

// probe fires a create event at every registration ever made (the handler funcs stay
// callable after removal) and attributes it. Only called at quiescence.
func (w *world) probe() []probedReg {
	snaps := w.fc.snapshot()
	out := make([]probedReg, 0, len(snaps))
	obj := &kunstructured.Unstructured{Object: map[string]any{"apiVersion": "probe.verif/v1", "kind": "Probe", "metadata": map[string]any{"name": "probe"}}}
	for _, s := range snaps {
		p := probedReg{regSnap: s}
		w.sink.take()
		s.h.OnAdd(obj, false)
		hits := w.sink.take()
		if len(hits) == 1 && hits[0].q != nil {
			p.attributed = true
			p.ctrl = hits[0].h.ctrl
			p.inc = hits[0].q.ctrl
			p.wid = hits[0].h.wid
			p.op = hits[0].h.op
		}
		out = append(out, p)
	}
	return out
}

// crdDeleted delivers the deletion of the CRD that defines gvk's kind (with versions vs) to every
// handler registered on the CustomResourceDefinition informer - the engine's custom-resource
// informer garbage collector is one. It returns the number of handlers called.
func (f *fakeCache) crdDeleted(gvk gvkT, vs ...string) int {
	crd := &extv1.CustomResourceDefinition{}
	crd.SetName(strings.ToLower(gvk.Kind) + "s." + gvk.Group)
	crd.Spec.Group = gvk.Group
	crd.Spec.Names.Kind = gvk.Kind
	for _, v := range vs {
		crd.Spec.Versions = append(crd.Spec.Versions, extv1.CustomResourceDefinitionVersion{Name: v, Served: true})
	}
	f.mu.Lock()
	var hs []toolscache.ResourceEventHandler
	for _, r := range f.regs {
		if r.inf.gvk.Kind == "CustomResourceDefinition" && !r.removed && !r.inf.stopped {
			hs = append(hs, r.h)
		}
	}
	f.mu.Unlock()
	for _, h := range hs {
		h.OnDelete(crd)
	}
	return len(hs)
}
