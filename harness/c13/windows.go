//go:build verif

package main

// Part (b): deterministic forcing of the window in StartWatches between fetching the
// controller (+ computing the active informers) and taking the controller lock.
// Part (d): watches lost with their informer, and plain sequential histories.

import (
	"context"
	"fmt"
	"math/rand/v2"
	"time"

	"k8s.io/apimachinery/pkg/runtime/schema"
	"k8s.io/apimachinery/pkg/types"

	"github.com/crossplane/crossplane/internal/engine"
	"github.com/crossplane/crossplane/verifh/kit"
)

type winCombo struct {
	scenario string
	pre      string // state of the watch before the window: absent | active | lost
	restart  bool
}

var winCombos = func() []winCombo {
	var out []winCombo
	for _, pre := range []string{"absent", "active", "lost"} {
		out = append(out,
			winCombo{"concurrent-startwatches", pre, false},
			winCombo{"startwatches-vs-stop", pre, false},
			winCombo{"startwatches-vs-stop", pre, true},
			winCombo{"startwatches-vs-stop-start", pre, false},
			winCombo{"startwatches-vs-stopwatches", pre, false},
		)
	}
	out = append(out,
		winCombo{"startwatches-vs-removeinformer", "active", false},
		winCombo{"startwatches-vs-removeinformer", "absent", false},
		winCombo{"startwatches-vs-gc", "active", false},
		winCombo{"startwatches-vs-gc", "absent", false},
	)
	return out
}()

type detStats struct {
	lin linResult
	qs  quiesceStats
	ops map[string]int64
}

// liveCount counts live registrations of the newest incarnation of ctrl for wid.
func liveCount(w *world, ctrl string, wid engine.WatchID) (int, []probedReg) {
	incs := w.incarnations(ctrl)
	if len(incs) == 0 {
		return 0, nil
	}
	cur := incs[len(incs)-1]
	n := 0
	var rel []probedReg
	for _, p := range w.probe() {
		if p.attributed && p.inc == cur && p.wid == wid {
			rel = append(rel, p)
			if p.state == regLive {
				n++
			}
		}
	}
	return n, rel
}

func runWindow(s *sink, c *kit.Ctx, i int, st *detStats) bool {
	caseName := fmt.Sprintf("window/%d", i)
	rng := c.Rng("window", i)
	combo := winCombos[i%len(winCombos)]
	name := ctrlNames[rng.IntN(len(ctrlNames))]
	other := ctrlNames[(indexOf(ctrlNames, name)+1+rng.IntN(2))%len(ctrlNames)]
	wids := watchIDs(name)
	wid := wids[rng.IntN(len(wids))]
	if combo.scenario == "startwatches-vs-gc" {
		wid = composedWatch(composedKinds[rng.IntN(len(composedKinds))]) // unreferenced: the collector stops it
	}
	var extra []engine.WatchID // further watches in the parked call
	for _, x := range wids {
		if x != wid && rng.IntN(4) == 0 {
			extra = append(extra, x)
		}
	}
	distract := rng.IntN(2) == 0 && wid.Type != engine.WatchTypeCompositeResource
	scenario := fmt.Sprintf("%s/pre=%s/restart=%v", combo.scenario, combo.pre, combo.restart)
	fp := fmt.Sprintf("window|%s|%s|%s|extra=%v|distract=%v", scenario, name, widStr(wid), widStrs(extra), distract)

	w := newWorld(worldPark, &staticClient{items: map[schema.GroupKind][]map[string]any{}})
	r0 := &recorder{w: w, g: -1} // set-up and follow-up
	r1 := &recorder{w: w, g: 1}  // the parked StartWatches
	r2 := &recorder{w: w, g: 2}  // what runs inside the window
	names := []string{name}
	_ = r0.Start(name, ncOK, false)
	if distract {
		// another controller watches the same kind through the same informer
		names = append(names, other)
		_ = r0.Start(other, ncOK, false)
		_ = r0.StartWatches(other, engine.WatchID{Type: wid.Type, GVK: wid.GVK})
	}
	switch combo.pre {
	case "active":
		_ = r0.StartWatches(name, wid)
	case "lost":
		_ = r0.StartWatches(name, wid)
		_ = r0.RemoveInformer(wid.GVK)
	}

	w.park.armed.Store(1)
	done := make(chan struct{})
	go func() {
		defer close(done)
		_ = r1.StartWatches(name, append(append([]engine.WatchID{}, extra...), wid)...)
	}()
	select {
	case <-w.park.parked:
	case <-done:
		w.park.armed.Store(0)
		s.Count("windows.not_reached", 1)
		s.Inconclusive("StartWatches returned without calling ActiveInformers: the forced window does not exist in this tree")
		return true
	case <-time.After(watchdogDuration()):
		deadlockVerdict(s, caseName, "waiting for StartWatches to reach ActiveInformers in "+scenario)
		return false
	}
	// inside the window
	switch combo.scenario {
	case "concurrent-startwatches":
		_ = r2.StartWatches(name, wid)
	case "startwatches-vs-stop":
		_ = r2.Stop(name)
	case "startwatches-vs-stop-start":
		_ = r2.Stop(name)
		_ = r2.Start(name, ncOK, false)
	case "startwatches-vs-stopwatches":
		_, _ = r2.StopWatches(name, wid)
	case "startwatches-vs-removeinformer":
		_ = r2.RemoveInformer(wid.GVK)
	case "startwatches-vs-gc":
		_ = r2.GC(name)
	}
	w.park.release <- struct{}{}
	select {
	case <-done:
	case <-time.After(watchdogDuration()):
		deadlockVerdict(s, caseName, "parked StartWatches did not return after release in "+scenario)
		return false
	}
	// follow-up
	if combo.restart {
		_ = r0.Start(name, ncOK, false)
		_ = r0.StartWatches(name, wid)
	}
	if combo.scenario == "startwatches-vs-removeinformer" {
		// the parked call overlapped the removal; the NEXT start request must re-establish it
		_ = r0.StartWatches(name, wid)
		if n, rel := liveCount(w, name, wid); n != 1 {
			s.Violate("watch-not-reestablished-after-informer-removal", caseName,
				fmt.Sprintf("watch %s of %q has %d live registrations after its informer was removed and StartWatches was called again", widStr(wid), name, n),
				map[string]any{"scenario": scenario, "registrations": regSummaries(rel), "history": mergeRecs(r0, r1, r2)})
		}
	}
	all := quiesce(s, w, caseName, scenario, names, r0, []*recorder{r1, r2}, nil, &st.lin, &st.qs)
	ov, _ := overlapPairs(all)
	s.Eval(fp, ov >= 1)
	s.Count("windows.executed", 1)
	s.Count("windows."+combo.scenario, 1)
	opsByType(all, st.ops)
	if i < len(winCombos) && (combo.scenario == "concurrent-startwatches" || combo.scenario == "startwatches-vs-stop") && combo.pre == "absent" && !combo.restart {
		s.Sample(map[string]any{"case": caseName, "scenario": scenario, "overlapping_pairs": ov, "history": all})
	}
	return true
}

func indexOf(xs []string, x string) int {
	for i, v := range xs {
		if v == x {
			return i
		}
	}
	return 0
}

// runSequential executes a random history from ONE goroutine and applies the same quiescence
// oracles: with no concurrency every leftover is attributable unambiguously.
func runSequential(s *sink, c *kit.Ctx, i int, st *detStats) {
	caseName := fmt.Sprintf("seq/%d", i)
	rng := c.Rng("seq", i)
	names := []string{ctrlNames[0], ctrlNames[1]}
	w := newWorld(worldPlain, &staticClient{items: genXRs(rng, names)})
	r0 := &recorder{w: w, g: -1}
	n := 8 + rng.IntN(25)
	fp := "seq"
	gvks := append([]gvkT{revGVK, xrGVK(names[0]), xrGVK(names[1])}, composedKinds...)
	for k := 0; k < n; k++ {
		ctrl := names[rng.IntN(2)]
		o := opSpec{Ctrl: ctrl}
		switch x := rng.IntN(100); {
		case x < 15:
			o.Kind = "Start"
			if rng.IntN(8) == 0 {
				o.NC = ncSyncFail
			}
		case x < 25:
			o.Kind = "Stop"
		case x < 32:
			o.Kind = "IsRunning"
		case x < 62:
			o.Kind, o.WIDs = "StartWatches", pickWIDs(rng, ctrl)
		case x < 74:
			o.Kind, o.WIDs = "StopWatches", pickWIDs(rng, ctrl)
		case x < 80:
			o.Kind = "GetWatches"
		case x < 90:
			o.Kind = "GC"
		default:
			o = opSpec{Kind: "RemoveInformer", GVK: gvks[rng.IntN(len(gvks))]}
		}
		fp += "|" + o.String()
		r0.exec(o)
	}
	all := quiesce(s, w, caseName, "sequential", names, r0, nil, nil, &st.lin, &st.qs)
	s.Eval(fp, false)
	s.Count("sequential.histories", 1)
	opsByType(all, st.ops)
}

// runReestablish is part (d): after RemoveInformer the next StartWatches must make the watch
// live again (exactly one registration on a new informer instance).
func runReestablish(s *sink, c *kit.Ctx, i int, st *detStats) {
	caseName := fmt.Sprintf("reestablish/%d", i)
	rng := c.Rng("reestablish", i)
	variant := []string{"single-controller", "two-controllers-share-kind", "cache-read-before-startwatches", "startwatches-during-removal", "crd-deleted-startwatches-during-removal"}[i%5]
	// crd-deleted-...: the informers go because the kind's CRD is deleted - the engine's own
	// custom-resource informer garbage collector removes them, version by version - and the start
	// request arrives while the collector is at the CRD's OTHER version
	viaCRD := variant == "crd-deleted-startwatches-during-removal"
	const otherVersion = "v9other"
	if viaCRD {
		variant = "startwatches-during-removal"
	}
	a, b := ctrlNames[rng.IntN(3)], ""
	names := []string{a}
	w := newWorld(worldPlain, &staticClient{items: map[schema.GroupKind][]map[string]any{}})
	r0 := &recorder{w: w, g: -1}
	_ = r0.Start(a, ncOK, false)
	// the watches of a, some of which lose their informer
	was := pickSome(rng, watchIDs(a), 2, 5)
	_ = r0.StartWatches(a, was...)
	var shared engine.WatchID
	if variant == "two-controllers-share-kind" {
		b = ctrlNames[(indexOf(ctrlNames, a)+1)%3]
		names = append(names, b)
		_ = r0.Start(b, ncOK, false)
		// b watches one of a's non-XR kinds too
		for _, x := range was {
			if x.Type != engine.WatchTypeCompositeResource {
				shared = x
			}
		}
		if shared.Type == "" {
			shared = revWatch()
			was = append(was, shared)
			_ = r0.StartWatches(a, shared)
		}
		_ = r0.StartWatches(b, shared)
	}
	rm := map[gvkT]bool{} // every GVK occurs once in was
	for _, x := range was {
		if x == shared || rng.IntN(2) == 0 {
			rm[x.GVK] = true
		}
	}
	if len(rm) == 0 {
		rm[was[0].GVK] = true
	}
	var during []chan struct{}
	var others []*recorder
	if variant == "startwatches-during-removal" {
		// a start request for the very watch arrives while its informer is being removed: it runs
		// on its own goroutine from the moment the wrapped cache's RemoveInformer is entered. The
		// removal waits (bounded; a start request that blocks on the tracking cache is fine) and
		// then proceeds. Whatever the order, the NEXT start request must leave the watch live.
		byGVK := map[gvkT]engine.WatchID{}
		for _, x := range was {
			byGVK[x.GVK] = x
			if viaCRD {
				delete(byGVK, x.GVK)
				o := x.GVK
				o.Version = otherVersion
				byGVK[o] = x
			}
		}
		w.fc.mu.Lock()
		w.fc.beforeRemove = func(gvk gvkT) {
			x, ok := byGVK[gvk]
			if !ok {
				return
			}
			done := make(chan struct{})
			during = append(during, done)
			rk := &recorder{w: w, g: len(during)} // one recorder per concurrent caller
			others = append(others, rk)
			go func() {
				defer close(done)
				_ = rk.StartWatches(a, x)
			}()
			select {
			case <-done:
			case <-time.After(50 * time.Millisecond):
			}
		}
		w.fc.mu.Unlock()
	}
	if viaCRD {
		gcCtx, stopGC := context.WithCancel(solicited(bg)) // the collector removes informers because a CRD was deleted
		defer stopGC()
		if err := w.eng.GarbageCollectCustomResourceInformers(gcCtx); err != nil {
			s.Inconclusive("reestablish: cannot start the engine's custom resource informer garbage collector: " + err.Error())
			return
		}
	}
	for _, x := range was {
		if rm[x.GVK] && viaCRD {
			if n := r0.CRDDeleted(x.GVK, otherVersion); n != 1 {
				s.Inconclusive(fmt.Sprintf("reestablish: %d handlers on the CRD informer, want the engine's one", n))
				return
			}
			s.Count("reestablish.crd_delete_events_delivered", 1)
		} else if rm[x.GVK] {
			_ = r0.RemoveInformer(x.GVK)
		}
	}
	if variant == "startwatches-during-removal" {
		w.fc.mu.Lock()
		w.fc.beforeRemove = nil
		w.fc.mu.Unlock()
		for _, d := range during {
			select {
			case <-d:
			case <-time.After(30 * time.Second):
				s.Inconclusive("reestablish: a start request issued during informer removal did not return within 30s")
				return
			}
		}
		s.Count("reestablish.startwatches_during_removal", int64(len(during)))
	}
	// all watches on removed informers are gone, the others untouched
	if variant != "startwatches-during-removal" {
		for _, x := range was {
			n, rel := liveCount(w, a, x)
			want := 1
			if rm[x.GVK] {
				want = 0
			}
			if n != want {
				s.Violate("informer-removal-live-count", caseName, fmt.Sprintf("after RemoveInformer: watch %s of %q has %d live registrations, want %d", widStr(x), a, n, want),
					map[string]any{"variant": variant, "registrations": regSummaries(rel), "history": r0.recs})
			}
		}
	}
	key := "watch-not-reestablished-after-informer-removal"
	switch variant {
	case "cache-read-before-startwatches":
		// a Get through the InformerTrackingCache marks the kind active before StartWatches.
		// Measured only, never a violation: cache reads are outside the property's quantifier
		// and cmd/crossplane wires the cached client's Reader to the unwrapped cache.
		key = ""
		for _, x := range was {
			if rm[x.GVK] {
				_ = w.itc.Get(bg, types.NamespacedName{Name: "any"}, kindObject(x.GVK))
			}
		}
		s.Count("reestablish.cache_reads_before_startwatches", 1)
	case "two-controllers-share-kind":
		key = "watch-not-reestablished:informer-reactivated-by-other-controller"
	}
	// the next start request for the lost watches
	_ = r0.StartWatches(a, was...)
	if b != "" {
		_ = r0.StartWatches(b, shared)
	}
	check := func(ctrl string, x engine.WatchID, key string) {
		n, rel := liveCount(w, ctrl, x)
		if n == 1 {
			s.Count("reestablish.watches_live_again", 1)
			return
		}
		k := key
		if n > 1 {
			k = "dup-registration:sequential-startwatches"
		}
		if k == "" {
			s.Count("reestablish.info_not_reestablished_after_tracking_cache_read", 1)
			return
		}
		s.Violate(k, caseName, fmt.Sprintf("watch %s of %q has %d live registrations after its informer was removed and the next StartWatches for it returned", widStr(x), ctrl, n),
			map[string]any{"variant": variant, "registrations": regSummaries(rel), "active_informer_instances": fmt.Sprint(w.fc.activeInstances()), "history": r0.recs})
	}
	for _, x := range was {
		k := "watch-not-reestablished-after-informer-removal"
		if variant == "cache-read-before-startwatches" && rm[x.GVK] {
			k = key
		}
		check(a, x, k)
	}
	if b != "" {
		check(b, shared, key)
	}
	all := quiesce(s, w, caseName, "reestablish/"+variant, names, r0, others, nil, &st.lin, &st.qs)
	s.Eval(fmt.Sprintf("reestablish|%s|%s|%v|%v", variant, a, widStrs(was), fmt.Sprint(rm)), false)
	s.Count("reestablish.cases", 1)
	s.Count("reestablish."+variant, 1)
	if viaCRD {
		s.Count("reestablish.via-crd-deletion", 1)
	}
	opsByType(all, st.ops)
}

func pickSome(rng *rand.Rand, all []engine.WatchID, lo, hi int) []engine.WatchID {
	all = append([]engine.WatchID{}, all...)
	rng.Shuffle(len(all), func(i, j int) { all[i], all[j] = all[j], all[i] })
	n := lo + rng.IntN(hi-lo+1)
	if n > len(all) {
		n = len(all)
	}
	return all[:n]
}

// runFailingStop is part (e): the informer layer fails while a controller's watches are being
// torn down (RemoveEventHandler or GetInformer returns an error for one kind). Whatever Stop
// returns, the engine's report and the world must agree: a controller that is reported as not
// running has been cancelled and has no live handler left, and a caller that retries Stop until
// it returns nil ends up with exactly that.
// runPartialStart is part (g): ONE StartWatches call asks for several watches and the informer
// of a later one cannot be had (its kind is not served yet). The call fails; the watches it did
// start belong to the controller all the same: the next call must not start them a second time,
// GetWatches must know them, and Stop must take their handlers away.
func runPartialStart(s *sink, c *kit.Ctx, i int, st *detStats) {
	caseName := fmt.Sprintf("partial-start/%d", i)
	rng := c.Rng("partial-start", i)
	a := ctrlNames[rng.IntN(3)]
	w := newWorld(worldPlain, &staticClient{items: map[schema.GroupKind][]map[string]any{}})
	r0 := &recorder{w: w, g: -1}
	_ = r0.Start(a, ncOK, false)
	was := pickSome(rng, watchIDs(a), 2, 5)
	// the informer of one of the later watches fails for the first 1-3 calls
	bad := was[1+rng.IntN(len(was)-1)]
	fails := 1 + rng.IntN(3)
	w.fc.failNext(bad.GVK, 0, fails)
	errs := 0
	for call := 0; call < fails+2; call++ {
		if err := r0.StartWatches(a, was...); err != nil {
			errs++
		}
		for _, x := range was {
			n, rel := liveCount(w, a, x)
			if n > 1 {
				s.Violate("dup-registration:repeated-partial-startwatches", caseName, fmt.Sprintf("after StartWatches call %d (the informer of %s failed %d times): watch %s of %q has %d live registrations", call+1, widStr(bad), fails, widStr(x), a, n),
					map[string]any{"failing_watch": widStr(bad), "registrations": regSummaries(rel), "history": r0.recs})
			}
		}
	}
	for _, x := range was {
		if n, rel := liveCount(w, a, x); n != 1 {
			s.Violate("watch-not-live-after-informer-fault-passed", caseName, fmt.Sprintf("watch %s of %q has %d live registrations after the injected informer faults were used up and StartWatches succeeded", widStr(x), a, n),
				map[string]any{"failing_watch": widStr(bad), "registrations": regSummaries(rel), "history": r0.recs})
		}
	}
	all := quiesce(s, w, caseName, "partial-start", []string{a}, r0, nil, nil, &st.lin, &st.qs)
	s.Eval(fmt.Sprintf("partial-start|%s|%v|%s|%d", a, widStrs(was), widStr(bad), fails), errs > 0)
	s.Count("partial_start.cases", 1)
	s.Count("partial_start.startwatches_errors_observed", int64(errs))
	opsByType(all, st.ops)
}

// runStopInflight is part (h): Stop is called while a reconcile of that controller is in flight;
// the reconcile goes on to call StartWatches (every XR reconcile does) and the controller's Start
// returns only after it. Stop, the late StartWatches and calls for OTHER controllers all return.
// It returns false if the process must stop (deadlock).
func runStopInflight(s *sink, c *kit.Ctx, i int, st *detStats) bool {
	caseName := fmt.Sprintf("stop-inflight/%d", i)
	rng := c.Rng("stop-inflight", i)
	a := ctrlNames[rng.IntN(3)]
	b := ctrlNames[(indexOf(ctrlNames, a)+1)%3]
	w := newWorld(worldPlain, &staticClient{items: map[schema.GroupKind][]map[string]any{}})
	r0 := &recorder{w: w, g: -1}
	_ = r0.Start(a, ncInflight, false)
	_ = r0.Start(b, ncOK, false)
	_ = r0.StartWatches(a, pickSome(rng, watchIDs(a), 1, 3)...)
	done := make(chan struct{})
	r1 := &recorder{w: w, g: 1}
	go func() {
		defer close(done)
		_ = r1.Stop(a)
		_ = r1.IsRunning(b)
		_, _ = r1.GetWatches(b)
	}()
	select {
	case <-done:
	case <-time.After(20 * time.Second):
		deadlockVerdict(s, caseName, "Stop of a controller with a reconcile in flight that calls StartWatches")
		return false
	}
	all := quiesce(s, w, caseName, "stop-inflight", []string{a, b}, r0, []*recorder{r1}, nil, &st.lin, &st.qs)
	s.Eval(fmt.Sprintf("stop-inflight|%s|%d", a, i), true)
	s.Count("stop_inflight.cases", 1)
	opsByType(all, st.ops)
	return true
}

// runRestartSameName is part (i): a controller is stopped while it still waits for its caches (its
// Start then returns an ERROR, as controller-runtime's does) and a new controller is started
// under the same name at once - what the XRD reconciler does when the referenceable version
// changes. The engine's clean-up for the failed old incarnation must not take the new one down.
func runRestartSameName(s *sink, c *kit.Ctx, i int, st *detStats) {
	caseName := fmt.Sprintf("restart-same-name/%d", i)
	rng := c.Rng("restart-same-name", i)
	a := ctrlNames[rng.IntN(3)]
	w := newWorld(worldPlain, &staticClient{items: map[schema.GroupKind][]map[string]any{}})
	r0 := &recorder{w: w, g: -1}
	_ = r0.Start(a, ncErrOnCancel, false)
	if incs := w.incarnations(a); len(incs) != 1 || !waitStarted(incs[0]) {
		s.Inconclusive("restart-same-name: the first incarnation never started")
		return
	}
	_ = r0.Stop(a)
	_ = r0.Start(a, ncOK, false)
	was := pickSome(rng, watchIDs(a), 1, 3)
	_ = r0.StartWatches(a, was...)
	old := w.incarnations(a)[0]
	select {
	case <-old.returned:
	case <-time.After(30 * time.Second):
		s.Inconclusive("restart-same-name: the stopped incarnation's Start never returned")
		return
	}
	// the engine's clean-up for the old incarnation runs right after its Start returned; give it
	// (a bounded number of yields and a little time) to act, then look
	taken := false
	for k := 0; k < 40 && !taken; k++ {
		time.Sleep(5 * time.Millisecond)
		taken = !w.eng.IsRunning(a)
	}
	if taken {
		incs := w.incarnations(a)
		cancelled := len(incs) > 1 && incs[1].ctx() != nil && incs[1].ctx().Err() != nil
		live := 0
		for _, x := range was {
			n, _ := liveCount(w, a, x)
			live += n
		}
		s.Violate("restarted-controller-stopped-by-cleanup-of-its-predecessor", caseName,
			fmt.Sprintf("controller %q was stopped while syncing (its Start returned an error) and started again at once; nobody stopped the new controller, yet IsRunning is false (new context cancelled: %v, live handlers of its %d watches: %d)", a, cancelled, len(was), live),
			map[string]any{"history": r0.recs})
	}
	s.Eval(fmt.Sprintf("restart-same-name|%s|%d", a, i), true)
	s.Count("restart_same_name.cases", 1)
	_ = st
}

func runFailingStop(s *sink, c *kit.Ctx, i int, st *detStats) {
	caseName := fmt.Sprintf("failing-stop/%d", i)
	rng := c.Rng("failing-stop", i)
	a := ctrlNames[rng.IntN(3)]
	names := []string{a}
	w := newWorld(worldPlain, &staticClient{items: map[schema.GroupKind][]map[string]any{}})
	r0 := &recorder{w: w, g: -1}
	_ = r0.Start(a, ncOK, false)
	was := pickSome(rng, watchIDs(a), 2, 5)
	_ = r0.StartWatches(a, was...)
	// one or two kinds whose teardown fails once (or twice)
	nf := 1 + rng.IntN(2)
	failing := map[gvkT]bool{}
	for k := 0; k < nf; k++ {
		x := was[rng.IntN(len(was))]
		failing[x.GVK] = true
		if rng.IntN(2) == 0 {
			w.fc.failNext(x.GVK, 1+rng.IntN(2), 0)
		} else {
			w.fc.failNext(x.GVK, 0, 1+rng.IntN(2))
		}
	}
	agree := func(when string) {
		if w.eng.IsRunning(a) {
			return
		}
		live := 0
		var rel []probedReg
		for _, x := range was {
			n, r := liveCount(w, a, x)
			live += n
			rel = append(rel, r...)
		}
		if live > 0 {
			s.Violate("not-running-but-handlers-live", caseName, fmt.Sprintf("%s: IsRunning(%q) is false but %d of its event handlers are still registered", when, a, live),
				map[string]any{"failing_kinds": fmt.Sprint(failing), "registrations": regSummaries(rel), "history": r0.recs})
		}
		for _, inc := range w.incarnations(a) {
			if !waitStarted(inc) {
				s.Inconclusive("a fake controller's Start was never called")
				continue
			}
			if ctx := inc.ctx(); ctx != nil && ctx.Err() == nil {
				s.Violate("not-running-but-context-live", caseName, fmt.Sprintf("%s: IsRunning(%q) is false but the controller's context is not cancelled", when, a), map[string]any{"history": r0.recs})
			}
		}
	}
	errs := 0
	stopped := false
	for try := 0; try < 6 && !stopped; try++ {
		err := r0.Stop(a)
		if err != nil {
			errs++
		} else {
			stopped = true
			if w.eng.IsRunning(a) {
				s.Violate("running-after-successful-stop", caseName, fmt.Sprintf("Stop(%q) returned nil but IsRunning is still true", a), map[string]any{"history": r0.recs})
			}
		}
		agree(fmt.Sprintf("after Stop attempt %d (err=%v)", try+1, err))
	}
	if !stopped {
		s.Violate("stop-never-succeeds-after-transient-informer-fault", caseName, fmt.Sprintf("Stop(%q) still fails after the injected informer faults were used up", a), map[string]any{"history": r0.recs})
	}
	s.Eval(fmt.Sprintf("failing-stop|%s|%v|%v", a, widStrs(was), fmt.Sprint(failing)), errs > 0)
	s.Count("failing_stop.cases", 1)
	s.Count("failing_stop.stop_errors_observed", int64(errs))
	_ = names
	_ = st
}
