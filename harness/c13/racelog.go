//go:build verif

package main

// Reading the race detector's log files (GORACE log_path=$VERIF_RACE_LOG -> <prefix>.<pid>).

import (
	"os"
	"path/filepath"
	"regexp"
	"sort"
	"strings"
)

const (
	xpPrefix      = "github.com/crossplane/crossplane/"
	harnessPrefix = "github.com/crossplane/crossplane/verifh/"
)

type raceReport struct {
	Key        string   `json:"key"`
	Crossplane bool     `json:"crossplane"`
	Accesses   []string `json:"accesses"`
	Text       string   `json:"text"`
	Count      int      `json:"count"`
}

var frameLine = regexp.MustCompile(`^  (\S.*)\(\)\s*$`)

func isCrossplaneFrame(f string) bool {
	return strings.HasPrefix(f, xpPrefix) && !strings.HasPrefix(f, harnessPrefix)
}

// parseRaceLogs splits the logs on "WARNING: DATA RACE" and de-duplicates the reports by the
// outermost crossplane frame of each of the two access stacks.
func parseRaceLogs(prefix string) (reports []raceReport, files int, total int) {
	if prefix == "" {
		return nil, 0, 0
	}
	paths, _ := filepath.Glob(prefix + ".*")
	sort.Strings(paths)
	byKey := map[string]*raceReport{}
	for _, p := range paths {
		b, err := os.ReadFile(p)
		if err != nil {
			continue
		}
		files++
		chunks := strings.Split(string(b), "WARNING: DATA RACE")
		for _, ch := range chunks[1:] {
			total++
			if k := strings.Index(ch, "=================="); k >= 0 {
				ch = ch[:k]
			}
			var accesses []string
			xp := false
			for _, sec := range strings.Split(strings.TrimSpace(ch), "\n\n") {
				lines := strings.Split(sec, "\n")
				head := strings.TrimSpace(lines[0])
				if strings.HasPrefix(head, "Goroutine ") {
					continue // creation stacks
				}
				first := "-"
				for _, l := range lines[1:] {
					m := frameLine.FindStringSubmatch(l)
					if m == nil {
						continue
					}
					if isCrossplaneFrame(m[1]) {
						xp = true
						first = strings.TrimPrefix(strings.TrimPrefix(m[1], xpPrefix), "internal/")
						break
					}
				}
				accesses = append(accesses, first)
			}
			sort.Strings(accesses)
			key := "race:" + strings.Join(accesses, "|")
			if r := byKey[key]; r != nil {
				r.Count++
				continue
			}
			txt := "WARNING: DATA RACE" + ch
			if len(txt) > 6000 {
				txt = txt[:6000] + "\n...[truncated]"
			}
			byKey[key] = &raceReport{Key: key, Crossplane: xp, Accesses: accesses, Text: txt, Count: 1}
		}
	}
	keys := make([]string, 0, len(byKey))
	for k := range byKey {
		keys = append(keys, k)
	}
	sort.Strings(keys)
	for _, k := range keys {
		reports = append(reports, *byKey[k])
	}
	return reports, files, total
}
