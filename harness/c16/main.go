//go:build verif

// C16: establishing package objects is all-or-nothing and respects the active/inactive role.
// The REAL revision.APIEstablisher runs over the simulated API server and is driven the way
// the revision reconciler drives it (Establish with control = desiredState==Active,
// ReleaseObjects on deactivation, status.objectRefs kept by the caller). Workload: generated
// object sets against pre-existing cluster objects of every ownership class, upgrade and
// rollback sequences with the two revision reconciles permuted as whole steps and the
// garbage collector as an actor after every step, and API errors at every call index of an
// Establish / ReleaseObjects followed by a clean retry. Oracles: the write log (dry-run vs
// real) per call, a post-write hook for the "at every instant" clauses, and the owner
// references in the store.
package main

import (
	"context"
	"errors"
	"fmt"
	"math/rand/v2"
	"os"
	"runtime/pprof"
	"sort"
	"strings"
	"sync"
	"sync/atomic"

	"k8s.io/apimachinery/pkg/apis/meta/v1/unstructured"
	"k8s.io/apimachinery/pkg/runtime/schema"
	"k8s.io/apimachinery/pkg/types"
	"sigs.k8s.io/controller-runtime/pkg/reconcile"

	"github.com/google/go-containerregistry/pkg/name"
	conregv1 "github.com/google/go-containerregistry/pkg/v1"

	"github.com/crossplane/crossplane/internal/controller/pkg/manager"
	"github.com/crossplane/crossplane/internal/controller/pkg/revision"
	"github.com/crossplane/crossplane/internal/xpkg"
	"github.com/crossplane/crossplane/verifh/xrk"

	v1 "github.com/crossplane/crossplane/apis/pkg/v1"
	"github.com/crossplane/crossplane/verifh/kit"
	"github.com/crossplane/crossplane/verifh/sim"
)

// ---- generators ----

var ownedClasses = map[string]bool{"plainowned": true, "self": true, "prevctl": true, "prevreleased": true, "otherpkg": true, "foreignctl": true}

var benignClasses = []string{"absent", "absent", "absent", "uncontrolled", "uncontrolled", "plainowned", "self", "prevreleased", "prevreleased"}
var hostileClasses = []string{"prevctl", "otherpkg", "otherpkg", "foreignctl", "rejected-absent", "rejected-existing"}

type singleCase struct {
	Pkg     string    `json:"pkg"`
	Control bool      `json:"control"`
	TLS     bool      `json:"tls,omitempty"`
	Labels  bool      `json:"commonLabels,omitempty"`
	Conc    int       `json:"conc"`
	Objs    []objSpec `json:"objs"`
	Pre     []string  `json:"pre"`
	Content int       `json:"content"`
}

func pick[T any](r *rand.Rand, xs []T) T { return xs[r.IntN(len(xs))] }

// genObjs draws n distinct objects of the kinds the package type installs.
// genObjs: with forceSameName the set always holds a same-named pair of different kinds (used by
// real-reconciler sequences, whose object references are keyed by apiVersion, kind and name)
func genObjs(r *rand.Rand, pkg string, n int, tls bool, forceSameName bool) []objSpec {
	var pool []objSpec
	if pkg == "Provider" {
		for _, p := range r.Perm(len(crdPool)) {
			pool = append(pool, objSpec{Kind: "crd", Name: crdPool[p], Conv: r.IntN(8) == 0})
		}
		if !tls {
			// with a TLS secret the establisher renames webhook configurations; that handling is
			// outside this property, the generator only ships them without a secret
			mw := "mutating-hooks"
			if r.IntN(3) == 0 || forceSameName {
				mw = "validating-hooks" // both webhook configurations named alike: different kinds, same apiVersion
			}
			pool = append(pool, objSpec{Kind: "vwc", Name: "validating-hooks"}, objSpec{Kind: "mwc", Name: mw})
			// keep CRDs dominant but let the webhook configurations appear anywhere
			i, j := r.IntN(len(pool)), r.IntN(len(pool))
			pool[len(pool)-1], pool[i] = pool[i], pool[len(pool)-1]
			pool[len(pool)-2], pool[j] = pool[j], pool[len(pool)-2]
			if forceSameName {
				// the same-named webhook configurations lead the set
				k := 0
				for q := range pool {
					if pool[q].Kind == "vwc" || pool[q].Kind == "mwc" {
						pool[k], pool[q] = pool[q], pool[k]
						k++
					}
				}
			}
		}
	} else {
		for _, p := range r.Perm(len(xrdPool)) {
			pool = append(pool, objSpec{Kind: "xrd", Name: xrdPool[p]})
		}
		for _, p := range r.Perm(len(compPool)) {
			pool = append(pool, objSpec{Kind: "comp", Name: compPool[p]})
		}
		r.Shuffle(len(pool), func(i, j int) { pool[i], pool[j] = pool[j], pool[i] })
		if r.IntN(3) == 0 || forceSameName {
			// a Composition named after its XRD: different kinds, same apiVersion, same name
			xi, ci := -1, -1
			for k, o := range pool {
				if o.Kind == "xrd" && xi < 0 {
					xi = k
				}
				if o.Kind == "comp" && ci < 0 {
					ci = k
				}
			}
			if xi >= 0 && ci >= 0 {
				pool[ci].Name = pool[xi].Name
				// keep the pair together at the front so that small object sets contain both
				pool[0], pool[xi] = pool[xi], pool[0]
				if ci == 0 {
					ci = xi
				}
				pool[1], pool[ci] = pool[ci], pool[1]
			}
		}
	}
	if n > len(pool) {
		n = len(pool)
	}
	return pool[:n]
}

func genSingle(r *rand.Rand) singleCase {
	sc := singleCase{Pkg: "Provider", Control: r.IntN(10) < 7, Conc: 1, Content: 1 + r.IntN(3)}
	if r.IntN(100) < 35 {
		sc.Pkg = "Configuration"
	}
	if sc.Pkg == "Provider" && r.IntN(3) == 0 {
		sc.TLS = true
	}
	sc.Labels = r.IntN(4) == 0
	if r.IntN(5) == 0 {
		sc.Conc = 4
	}
	sc.Objs = genObjs(r, sc.Pkg, 1+r.IntN(6), sc.TLS, false)
	for range sc.Objs {
		sc.Pre = append(sc.Pre, pick(r, benignClasses))
	}
	if r.IntN(2) == 0 {
		// one or two objects that cannot be taken over, at random positions
		for k := 0; k < 1+r.IntN(2); k++ {
			sc.Pre[r.IntN(len(sc.Pre))] = pick(r, hostileClasses)
		}
	}
	return sc
}

func (sc *singleCase) nontrivial() bool {
	if len(sc.Objs) < 2 {
		return false
	}
	for _, p := range sc.Pre {
		if ownedClasses[p] {
			return true
		}
	}
	return false
}

// prepare builds the cluster of a single case: previous revision pk-r0 (inactive), the
// revision under test pk-r1, and the pre-existing objects.
func (sc *singleCase) prepare(c *kit.Ctx, name string, seed uint64) *exec {
	x := newExec(c, name, sc, sc.Pkg, seed, sc.Conc)
	if sc.TLS {
		x.mkTLSSecret()
	}
	prev := x.mkRevision("pk-r0", 1, v1.PackageRevisionInactive, sc.Objs, 0, sc.TLS, false)
	st := v1.PackageRevisionInactive
	if sc.Control {
		st = v1.PackageRevisionActive
	}
	self := x.mkRevision("pk-r1", 2, st, sc.Objs, sc.Content, sc.TLS, sc.Labels)
	for i, s := range sc.Objs {
		x.seedClass(s, sc.Pre[i], 0, prev, self)
		x.count("pre_"+sc.Pre[i], 1)
	}
	return x
}

// runLarge: packages far larger than any batching or concurrency limit inside the establisher
// (providers ship hundreds of CRDs). One object late in the package cannot be taken over: all
// or nothing still holds for the whole package.
func runLarge(c *kit.Ctx, i int) {
	name := fmt.Sprintf("large/%d", i)
	if !c.Want(name) {
		return
	}
	r := c.Rng("large", i)
	n := 150 + r.IntN(120)
	sc := singleCase{Pkg: "Provider", Control: true, Conc: 1 + r.IntN(3), Content: 1}
	bad := n/2 + r.IntN(n/2)
	for k := 0; k < n; k++ {
		sc.Objs = append(sc.Objs, objSpec{Kind: "crd", Name: fmt.Sprintf("kind%03ds.big%d.example.org", k, i)})
		cls := "absent"
		if k == bad {
			cls = []string{"otherpkg", "rejected-absent", "foreignctl", "rejected-existing"}[i%4]
		} else if r.IntN(10) == 0 {
			cls = "uncontrolled"
		}
		sc.Pre = append(sc.Pre, cls)
	}
	x := sc.prepare(c, name, uint64(c.Seed)*9_000_011+uint64(i))
	x.desc = map[string]any{"objects": n, "untakeable_object_index": bad, "class": sc.Pre[bad], "conc": sc.Conc}
	x.establish("pk-r1", true)
	x.gc()
	x.count("large_cases", 1)
	c.Eval(fmt.Sprintf("large|%d|%d|%d|%s", i, n, bad, sc.Pre[bad]), true)
	x.flush()
}

func runSingle(c *kit.Ctx, i int) {
	name := fmt.Sprintf("single/%d", i)
	if !c.Want(name) {
		return
	}
	sc := genSingle(c.Rng("single", i))
	x := sc.prepare(c, name, uint64(c.Seed)*1_000_003+uint64(i))
	r1 := x.establish("pk-r1", sc.Control)
	x.gc()
	// the periodic re-reconcile: same call on the resulting state
	x.establish("pk-r1", sc.Control)
	x.gc()
	x.count("single_cases", 1)
	c.Eval("single|"+kit.JSON(sc), sc.nontrivial())
	if sc.nontrivial() && len(r1.refused) > 0 && len(sc.Objs) >= 3 && c.WantSample() {
		c.Sample(map[string]any{"case": sc, "ops": x.ops, "refusal": r1.refused, "trace_first_establish": shorts(r1.log)})
	}
	x.flush()
}

// ---- upgrade / rollback sequences ----

type seqCase struct {
	Pkg     string            `json:"pkg"`
	TLS     bool              `json:"tls,omitempty"`
	S1      []objSpec         `json:"s1"`
	S2      []objSpec         `json:"s2"`
	Pre     map[string]string `json:"pre,omitempty"`     // object name -> class before rev1 is installed
	Blocker string            `json:"blocker,omitempty"` // class of one rev2-only object that cannot be taken over
	BlockOn string            `json:"blockOn,omitempty"`
	// after which step (counted over the whole sequence) the harness deletes the junk package
	// (legitimate GC work) / the revision of the other package (dangling controller reference)
	KillJunk     int `json:"killJunk"`
	KillOtherRev int `json:"killOtherRev"`
	Third        int `json:"third"` // thorough: program of a third phase (upgrade again), -1 none
}

// programs of one phase: D = reconcile of the deactivated revision (ReleaseObjects),
// A = reconcile of the activated revision (Establish control=true), I = the deactivated
// revision lost its status and reconciles (ReleaseObjects on nothing, Establish control=false).
var programs = [][]string{
	{"D", "A", "I"}, {"D", "I", "A"}, {"A", "D", "I"}, {"A", "I", "D"}, {"I", "D", "A"}, {"I", "A", "D"},
	{"D", "A"}, {"A", "D"},
	{"S", "A", "D"}, {"A", "S", "D"}, {"D", "S", "A"}, {"D", "A", "S"},
}

func genSeq(r *rand.Rand, thorough bool, sameName ...string) seqCase {
	sc := seqCase{Pkg: "Provider", KillJunk: -1, KillOtherRev: -1, Third: -1, Pre: map[string]string{}}
	if r.IntN(100) < 35 {
		sc.Pkg = "Configuration"
	}
	if sc.Pkg == "Provider" && r.IntN(3) == 0 {
		sc.TLS = true
	}
	force := len(sameName) > 0 && sameName[0] != ""
	if force {
		sc.Pkg, sc.TLS = sameName[0], false
	}
	pool := genObjs(r, sc.Pkg, 8, sc.TLS, force)
	for i := range pool {
		pool[i].Conv = pool[i].Conv && sc.TLS // a conversion webhook needs the CA; without it nothing is installable
	}
	n1 := 1 + r.IntN(min(5, len(pool)-1))
	if force && n1 < 2 {
		n1 = 2 // both objects of the same-named pair belong to the first revision
	}
	sc.S1 = append(sc.S1, pool[:n1]...)
	// rev2: drops some of rev1's objects, keeps the rest, adds new ones
	for _, s := range sc.S1 {
		if r.IntN(4) > 0 {
			sc.S2 = append(sc.S2, s)
		}
	}
	add := 1 + r.IntN(2)
	for k := 0; k < add && n1+k < len(pool) && len(sc.S2) < 6; k++ {
		sc.S2 = append(sc.S2, pool[n1+k])
	}
	r.Shuffle(len(sc.S2), func(i, j int) { sc.S2[i], sc.S2[j] = sc.S2[j], sc.S2[i] })
	for _, s := range pool[:min(len(pool), n1+add)] {
		switch r.IntN(20) {
		case 0, 1, 2, 3, 4:
			sc.Pre[s.Kind+"/"+s.Name] = "uncontrolled"
		case 5, 6, 7:
			sc.Pre[s.Kind+"/"+s.Name] = "plainowned"
		}
	}
	if r.IntN(100) < 35 {
		// one object only rev2 ships cannot be taken over
		sc.Blocker = pick(r, []string{"otherpkg", "otherpkg", "foreignctl", "rejected-absent", "rejected-existing"})
		sc.BlockOn = pool[n1].Kind + "/" + pool[n1].Name // kind-qualified: objects of different kinds may share a name
		delete(sc.Pre, sc.BlockOn)
	}
	if r.IntN(2) == 0 {
		sc.KillJunk = r.IntN(8)
	}
	if sc.Blocker == "otherpkg" && r.IntN(2) == 0 {
		sc.KillOtherRev = 2 + r.IntN(8)
	}
	_ = thorough
	if r.IntN(2) == 0 {
		// roll forward again after the rollback
		sc.Third = r.IntN(len(programs))
	}
	return sc
}

type seqRun struct {
	x    *exec
	sc   *seqCase
	step int
}

func (s *seqRun) afterStep() {
	s.x.gc()
	if s.step == s.sc.KillJunk {
		s.x.deletePackage(junkPkg, true)
		s.x.gc()
	}
	if s.step == s.sc.KillOtherRev {
		s.x.deletePackage(otherPkg, false)
		s.x.gc()
	}
	s.step++
}

// phase: the package manager has made newRev the active and oldRev the inactive revision; the
// two revision reconciles then run in the order of the program, and afterwards until both are
// quiet (both requeue on error in reality).
func (s *seqRun) phase(newRev, oldRev string, prog []string) {
	x := s.x
	beforeFlip := x.w.RV()
	x.setState(oldRev, v1.PackageRevisionInactive)
	x.setState(newRev, v1.PackageRevisionActive)
	x.ops = append(x.ops, fmt.Sprintf("package manager: %s -> Inactive, %s -> Active", oldRev, newRev))
	x.count("activate_deactivate_transitions", 1)
	for _, st := range prog {
		switch st {
		case "D":
			_ = x.reconcile(oldRev)
		case "A":
			_ = x.reconcile(newRev)
		case "I":
			x.loseStatus(oldRev)
			_ = x.reconcile(oldRev)
		case "S":
			// the deactivated revision is reconciled from a cache that still shows it Active: whatever it
			// is about to do as an active revision must founder on the API server's version check
			if x.real != nil {
				x.reconcileStale(oldRev, beforeFlip)
			}
		}
		s.afterStep()
	}
	for round := 0; round < 3; round++ {
		e1 := x.reconcile(oldRev)
		s.afterStep()
		e2 := x.reconcile(newRev)
		s.afterStep()
		if e1 == nil && e2 == nil {
			x.count("phases_converged", 1)
			return
		}
	}
	x.count("phases_blocked", 1)
}

func (sc *seqCase) prepare(c *kit.Ctx, name string, desc any, seed uint64) *exec {
	x := newExec(c, name, desc, sc.Pkg, seed, 1)
	if sc.TLS {
		x.mkTLSSecret()
	}
	r1 := x.mkRevision("pk-r1", 1, v1.PackageRevisionActive, sc.S1, 1, sc.TLS, false)
	names := make([]string, 0, len(sc.Pre))
	for n := range sc.Pre {
		names = append(names, n)
	}
	sort.Strings(names)
	byName := map[string]objSpec{}
	for _, s := range append(append([]objSpec{}, sc.S1...), sc.S2...) {
		byName[s.Kind+"/"+s.Name] = s
	}
	for _, n := range names {
		if s, ok := byName[n]; ok {
			x.seedClass(s, sc.Pre[n], 0, r1, r1)
		}
	}
	if sc.Blocker != "" {
		x.seedClass(byName[sc.BlockOn], sc.Blocker, 0, r1, r1)
	}
	return x
}

// install runs rev1's first reconcile and creates rev2 (inactive until the phase flips it).
func (sc *seqCase) install(x *exec) bool {
	if err := x.reconcile("pk-r1"); err != nil {
		x.c.Violate("harness:initial-install-failed", x.caseName, err.Error(), x.witness(nil))
		return false
	}
	x.gc()
	x.mkRevision("pk-r2", 2, v1.PackageRevisionInactive, sc.S2, 2, sc.TLS, false)
	return true
}

// runSeq runs one generated upgrade/rollback configuration under all 8x8 program pairs. With
// real set, the reconciles are those of the production revision.Reconciler (stream rseq);
// otherwise the establisher is driven directly the way the reconciler drives it.
func runSeq(c *kit.Ctx, i int, real bool) {
	stream := "seq"
	if real {
		stream = "rseq"
	}
	base := fmt.Sprintf("%s/%d", stream, i)
	if !wantUnder(c, base) {
		return
	}
	force := ""
	if real {
		// two of three real-reconciler sequences ship a same-named pair of different kinds
		force = []string{"Configuration", "Provider", ""}[i%3]
	}
	sc := genSeq(c.Rng(stream, i), c.Thorough(), force)
	if force != "" && len(sc.S1) < 2 {
		sc = genSeq(c.Rng(stream+"-retry", i), c.Thorough(), force)
	}
	for p1 := range programs {
		for p2 := range programs {
			name := fmt.Sprintf("%s/%d-%d", base, p1, p2)
			if !c.Want(name) {
				continue
			}
			desc := map[string]any{"sequence": sc, "upgrade_program": programs[p1], "rollback_program": programs[p2]}
			x := sc.prepare(c, name, desc, uint64(c.Seed)*7_000_003+uint64(i))
			if real {
				x.useRealReconciler()
			}
			if !sc.install(x) {
				continue
			}
			s := &seqRun{x: x, sc: &sc}
			s.phase("pk-r2", "pk-r1", programs[p1]) // upgrade
			s.phase("pk-r1", "pk-r2", programs[p2]) // rollback
			if sc.Third >= 0 {
				s.phase("pk-r2", "pk-r1", programs[sc.Third])
			}
			if os.Getenv("VERIF_DEBUG") != "" {
				fmt.Printf("%s %s\n  %s\n%s", name, kit.JSON(desc), strings.Join(x.ops, "\n  "), x.ownersState())
			}
			x.count("sequences_"+stream, 1)
			c.Eval(fmt.Sprintf("%s|%s|%d|%d", stream, kit.JSON(sc), p1, p2), true)
			if p1 == 3 && p2 == 0 && sc.Blocker == "" && len(sc.S1) >= 2 && seqSamples.Add(1) <= 2 && c.WantSample() {
				c.Sample(map[string]any{"case": desc, "ops": x.ops})
			}
			x.flush()
		}
	}
}

var seqSamples atomic.Int32

func wantUnder(c *kit.Ctx, prefix string) bool {
	return c.Only == "" || c.Only == prefix || strings.HasPrefix(c.Only, prefix+"/") || strings.HasPrefix(prefix, c.Only+"/")
}

// ---- fault enumeration ----

var faultOutcomes = []sim.Outcome{sim.ServerError, sim.Timeout, sim.ErrorAfter, sim.NotServed, sim.Unavailable, sim.Conflict}

// enumerate hits every call index of op (run on a fork of base) with every outcome, then
// retries the op without faults and compares the resulting ownership state with the
// fault-free run's.
func enumerate(c *kit.Ctx, base *exec, prefix, fp string, nontrivial bool, op func(x *exec) opResult) {
	ff := base.fork(prefix + "/fault-free")
	r0 := op(ff)
	ff.gc()
	want := ff.ownersState()
	ff.count("fault_bases", 1)
	ff.flush()
	for idx := 0; idx < r0.calls; idx++ {
		for _, out := range faultOutcomes {
			name := fmt.Sprintf("%s/%d-%s", prefix, idx, out)
			if !c.Want(name) {
				continue
			}
			x := base.fork(name)
			x.cl.Fault(idx, out)
			x.ops = append(x.ops, fmt.Sprintf("inject %s at call %d of the next op", out, idx))
			r := op(x)
			if !r.faultHit {
				x.count("fault_not_reached", 1)
			}
			x.gc()
			rr := op(x) // clean retry
			x.gc()
			if got := x.ownersState(); got != want {
				c.Violate("retry-after-fault-diverges", name, fmt.Sprintf("after %s at call %d and a clean retry the owner references differ from the fault-free run", out, idx),
					map[string]any{"case": x.desc, "ops": x.ops, "want": strings.Split(want, "\n"), "got": strings.Split(got, "\n"), "trace_of_faulted_op": shorts(r.log), "trace_of_retry": shorts(rr.log)})
			}
			if (rr.err == nil) != (r0.err == nil) {
				c.Violate("retry-after-fault-fails", name, fmt.Sprintf("fault-free result %v, clean retry after %s at call %d: %v", r0.err, out, idx, rr.err), x.witness(rr.log))
			}
			x.count("fault_runs", 1)
			c.Eval(fmt.Sprintf("fault|%s|%d|%s", fp, idx, out), nontrivial)
			x.flush()
		}
	}
}

// enumerateIntruder lets a third party delete one of the objects the revision ships right
// before call idx of op, for every idx (e.g. between the dry-run validation of an object and
// its real update), then retries op. The verdict comes from the monitors alone: whatever the
// establisher sees vanish, an inactive revision creates nothing and controls nothing.
func enumerateIntruder(c *kit.Ctx, base *exec, prefix, fp, rev string, op func(x *exec) opResult) {
	probe := base.fork(prefix + "/intruder-probe")
	r0 := op(probe)
	var victims []sim.Key
	for _, s := range base.revs[rev].Specs {
		if base.w.GetObj(s.key()) != nil {
			victims = append(victims, s.key())
		}
	}
	if len(victims) == 0 {
		return
	}
	for idx := 0; idx <= 2*r0.calls+1; idx++ {
		// two kinds of intrusion per call index: the object is deleted / the active revision of
		// another package takes control of it
		action := []string{"deletes", "takes control of"}[idx%2]
		idx := idx / 2
		name := fmt.Sprintf("%s/intruder-%d-%s", prefix, idx, strings.Fields(action)[0])
		if !c.Want(name) {
			continue
		}
		x := base.fork(name)
		victim := victims[idx%len(victims)]
		done := false
		third := x.w.Client("third-party")
		x.cl.OnCall = func(i int, _ string) {
			if i == idx && !done {
				done = true
				o := x.w.GetObj(victim)
				if o == nil {
					return
				}
				u := &unstructured.Unstructured{Object: o}
				if action == "deletes" {
					_ = third.Delete(bg, u)
					return
				}
				if controllerUID(o) != "" {
					return // somebody controls it already: a second controller would be rejected
				}
				refs := u.GetOwnerReferences()
				refs = append(refs, ownerRef(x.kind.revGVK, otherPkg+"-r1", x.otherRevUID, true))
				u.SetOwnerReferences(refs)
				_ = third.Update(bg, u)
			}
		}
		x.ops = append(x.ops, fmt.Sprintf("a third party %s %s right before call %d of the next op", action, victim, idx))
		x.intruded = true
		_ = op(x)
		x.intruded = false
		x.cl.OnCall = nil
		x.gc()
		_ = op(x)
		x.count("intruder_runs", 1)
		c.Eval(fmt.Sprintf("intruder|%s|%d", fp, idx), done)
		x.flush()
	}
}

func runFaultSingle(c *kit.Ctx, i int) {
	prefix := fmt.Sprintf("fault/%d", i)
	if !wantUnder(c, prefix) {
		return
	}
	sc := genSingle(c.Rng("fault", i))
	sc.Conc = 1 // call indices must be reproducible
	base := sc.prepare(c, prefix, uint64(c.Seed)*3_000_017+uint64(i))
	base.flush()
	enumerate(c, base, prefix, "single|"+kit.JSON(sc), sc.nontrivial(), func(x *exec) opResult { return x.establish("pk-r1", sc.Control) })
	enumerateIntruder(c, base, prefix, "single|"+kit.JSON(sc), "pk-r1", func(x *exec) opResult { return x.establish("pk-r1", sc.Control) })
	behindCache(c, base, prefix, "single|"+kit.JSON(sc), "pk-r1", sc.Control)
}

// behindCache: the revision controller's informer cache has not seen any of the package's
// pre-existing objects yet (its reads of those kinds are frozen at the state before they
// appeared; its writes hit the store). If one of the objects exists under another owner's
// control, nothing of the package may be written and the call may not succeed; if any exists at
// all, the creates it attempts are refused by the server and again nothing is written.
func behindCache(c *kit.Ctx, base *exec, prefix, fp, rev string, control bool) {
	name := prefix + "/behind-cache"
	if !c.Want(name) {
		return
	}
	x := base.fork(name)
	existing, hostile := 0, 0
	ri := x.revs[rev]
	for _, s := range ri.Specs {
		if o := x.w.GetObj(s.key()); o != nil {
			existing++
			if cu := controllerUID(o); cu != "" && cu != ri.UID {
				hostile++
			}
		}
	}
	if existing == 0 {
		return
	}
	x.relag(func(gk schema.GroupKind) (int64, bool) {
		return -x.baseRV, isPkgObjKind(sim.Key{Group: gk.Group, Kind: gk.Kind})
	})
	x.intruded = true
	r := x.establish(rev, control)
	x.intruded = false
	var real []string
	for i := range r.log {
		e := &r.log[i]
		if e.Actor == actorRev && e.IsWrite() && !e.DryRun && e.Changed {
			real = append(real, e.Short())
		}
	}
	if len(real) > 0 {
		c.Violate("behind-cache-establish-wrote-although-objects-exist", name, fmt.Sprintf("%d of the package's objects already exist (%d under another owner's control) but are not in the controller's cache yet; Establish(control=%v) returned %v and made %d effective write(s): %v", existing, hostile, control, r.err, len(real), real), x.witness(r.log))
	}
	if r.err == nil && hostile > 0 && control {
		c.Violate("behind-cache-establish-succeeded-despite-foreign-controller", name, fmt.Sprintf("%d object(s) are controlled by another owner (not yet in the cache); Establish(control=%v) reported success", hostile, control), x.witness(r.log))
	}
	x.count("behind_cache_runs", 1)
	c.Eval("behind-cache|"+fp, hostile > 0)
	x.flush()
}

// runFaultSeq enumerates faults in the three calls of an upgrade: the deactivation of rev1,
// the activation of rev2 after it, and rev1's inactive Establish after a status loss.
func runFaultSeq(c *kit.Ctx, i int) {
	prefix := fmt.Sprintf("faultseq/%d", i)
	if !wantUnder(c, prefix) {
		return
	}
	sc := genSeq(c.Rng("faultseq", i), false)
	sc.KillJunk, sc.KillOtherRev = -1, -1
	desc := map[string]any{"sequence": sc}
	x := sc.prepare(c, prefix, desc, uint64(c.Seed)*5_000_011+uint64(i))
	if !sc.install(x) {
		return
	}
	x.setState("pk-r1", v1.PackageRevisionInactive)
	x.setState("pk-r2", v1.PackageRevisionActive)
	x.ops = append(x.ops, "package manager: pk-r1 -> Inactive, pk-r2 -> Active")
	x.flush()
	fp := "seq|" + kit.JSON(sc)
	enumerate(c, x, prefix+"/D", fp+"|D", true, func(x *exec) opResult { return x.release("pk-r1") })
	// activation before the deactivation: refused (rev1 still controls the shared objects)
	enumerate(c, x, prefix+"/A-first", fp+"|A-first", true, func(x *exec) opResult { return x.establish("pk-r2", true) })
	lost := x.fork(prefix + "/I")
	lost.loseStatus("pk-r1")
	enumerate(c, lost, prefix+"/I", fp+"|I", true, func(x *exec) opResult { return x.establish("pk-r1", false) })
	enumerateIntruder(c, lost, prefix+"/I", fp+"|I", "pk-r1", func(x *exec) opResult { return x.establish("pk-r1", false) })
	rel := x.fork(prefix + "/DA")
	if r := rel.release("pk-r1"); r.err == nil {
		rel.gc()
		enumerate(c, rel, prefix+"/DA", fp+"|DA", true, func(x *exec) opResult { return x.establish("pk-r2", true) })
	}
	rel.flush()
	lost.flush()
}

// ---- main ----

// stubFetcher answers the package manager's HEAD request for the package source with a digest.
type stubFetcher struct{ digest string }

func (f stubFetcher) Fetch(context.Context, name.Reference, ...string) (conregv1.Image, error) {
	return nil, errors.New("not used")
}
func (f stubFetcher) Head(context.Context, name.Reference, ...string) (*conregv1.Descriptor, error) {
	h, err := conregv1.NewHash(f.digest)
	if err != nil {
		return nil, err
	}
	return &conregv1.Descriptor{Digest: h}, nil
}
func (f stubFetcher) Tags(context.Context, name.Reference, ...string) ([]string, error) {
	return nil, nil
}

// runRealFaultThenDeactivate: an established, still active revision is reconciled again by the
// REAL revision reconciler and one of that reconcile's API calls fails (500 / applied-but-504 /
// timeout), for every call index; before any retry the package manager deactivates the revision
// (an upgrade) and the revision is reconciled as inactive. Whatever the failed reconcile left in
// the revision's status: the inactive revision ends up controlling nothing.
func runRealFaultThenDeactivate(c *kit.Ctx, i int) {
	base := fmt.Sprintf("rfault/%d", i)
	if !wantUnder(c, base) {
		return
	}
	sc := genSeq(c.Rng("rfault", i), false, []string{"Configuration", "Provider"}[i%2])
	if len(sc.S1) < 3 {
		sc = genSeq(c.Rng("rfault-retry", i), false, []string{"Configuration", "Provider"}[i%2])
	}
	sc.KillJunk, sc.KillOtherRev = -1, -1
	desc := map[string]any{"sequence": sc}
	probe := sc.prepare(c, base+"/probe", desc, uint64(c.Seed)*9_000_011+uint64(i))
	probe.useRealReconciler()
	if !sc.install(probe) {
		return
	}
	probe.cl.ResetCalls()
	_ = probe.reconcile("pk-r1")
	calls := probe.cl.Calls()
	probe.flush()
	for k := 0; k < calls; k++ {
		for _, out := range []sim.Outcome{sim.ServerError, sim.ErrorAfter, sim.Timeout} {
			name := fmt.Sprintf("%s/k%d-%s", base, k, out)
			if !c.Want(name) {
				continue
			}
			x := sc.prepare(c, name, desc, uint64(c.Seed)*9_000_011+uint64(i))
			x.useRealReconciler()
			if !sc.install(x) {
				return
			}
			// the active revision's next reconcile fails at call k
			x.mon.cur = &opCtx{Op: "reconcile", RevName: "pk-r1", RevUID: x.revs["pk-r1"].UID, PkgUID: x.pkgUID, Control: true}
			x.cl.ResetCalls()
			x.cl.Fault(k, out)
			var rerr error
			perr := kit.Try(func() {
				_, rerr = x.real.rec.Reconcile(context.Background(), reconcile.Request{NamespacedName: types.NamespacedName{Name: "pk-r1"}})
			})
			x.cl.ClearFaults()
			x.mon.cur = nil
			x.ops = append(x.ops, fmt.Sprintf("Reconcile(pk-r1, active) with %s at call %d -> err=%v panic=%v", out, k, rerr, perr))
			// the upgrade: rev1 deactivated, rev2 activated; rev1 is reconciled first
			x.setState("pk-r1", v1.PackageRevisionInactive)
			x.setState("pk-r2", v1.PackageRevisionActive)
			x.ops = append(x.ops, "package manager: pk-r1 -> Inactive, pk-r2 -> Active")
			for n := 0; n < 2; n++ {
				if err := x.reconcile("pk-r1"); err == nil {
					break
				}
			}
			_ = x.reconcile("pk-r2")
			c.Eval(fmt.Sprintf("rfault|%s|%d|%s", kit.JSON(sc), k, out), true)
			x.count("real_fault_then_deactivate_runs", 1)
			x.flush()
		}
	}
}

// runTwoPackages: the revision controller's workers share ONE establisher. Revisions of two
// different packages are established by it, the first parked before each of its API calls while
// the second runs to completion. Every established object ends up with the owner references of
// the sequential run: its own revision as controller and ITS OWN package as plain owner.
func runTwoPackages(c *kit.Ctx, i int) {
	name := fmt.Sprintf("two-packages/%d", i)
	if !c.Want(name) {
		return
	}
	r := c.Rng("two-packages", i)
	x := newExec(c, name, map[string]any{"part": "two-packages"}, "Provider", uint64(c.Seed)*419+uint64(i), 1)
	all := genObjs(r, "Provider", 6, true, false)
	var crds []objSpec
	for _, s := range all {
		if s.Kind == "crd" {
			s.Conv = false
			crds = append(crds, s)
		}
	}
	if len(crds) < 4 {
		c.Count("two_packages_skipped", 1)
		return
	}
	half := len(crds) / 2
	specsA, specsB := crds[:half], crds[half:]
	x.mkRevision("pk-r1", 1, v1.PackageRevisionActive, specsA, 1, false, false)
	riB := &revInfo{Name: otherPkg + "-r1", UID: x.otherRevUID, Specs: specsB, Content: 1}
	x.revs[riB.Name] = riB
	est := revision.NewAPIEstablisher(mgrClient{x.cl}, nsXP, 1)
	est1 := func(rev string, specs []objSpec) func() {
		return func() {
			_, _ = est.Establish(bg, buildAll(specs, 1), x.loadRev(rev), true)
		}
	}
	digest := func(w *sim.World) map[string]string {
		out := map[string]string{}
		for _, s := range append(append([]objSpec{}, specsA...), specsB...) {
			o := w.GetObj(s.key())
			if o == nil {
				out[s.key().String()] = "<absent>"
				continue
			}
			var os []string
			for _, ow := range ownersOf(o) {
				os = append(os, fmt.Sprintf("%s/%s controller=%v", ow.Kind, ow.Name, ow.Controller))
			}
			sort.Strings(os)
			out[s.key().String()] = strings.Join(os, "; ")
		}
		return out
	}
	points, parked, diffs := xrk.InterleaveVsSequential(x.w, x.cl, est1("pk-r1", specsA), est1(riB.Name, specsB), digest, nil)
	c.Eval(name, parked > 0)
	c.Count("two_packages_preemption_points", int64(points))
	c.Count("two_packages_runs_that_parked", int64(parked))
	for _, d := range diffs {
		c.Violate("established-object-owners-differ-when-two-packages-interleave", name,
			fmt.Sprintf("Establish of %s's revision parked before %s while the revision of %s was established by the same establisher: owners of %s are [%s], sequentially [%s]", x.pkg, d.Point, otherPkg, d.Key, d.Interleaved, d.Sequential), d)
		break
	}
	x.flush()
}

// runManagerCreated: the revision is created by the REAL package manager reconciler (not by the
// harness) for packages whose names are short, dotted, or 64-100 characters long, and then
// established by the real revision reconciler. Every established object keeps the package as a
// non-controlling owner.
func runManagerCreated(c *kit.Ctx, i int) {
	name := fmt.Sprintf("manager-created/%d", i)
	if !c.Want(name) {
		return
	}
	r := c.Rng("manager-created", i)
	pkg := []string{
		"pk",
		"configuration-of-the-platform-team-for-all-regions-and-all-environments-eu",                            // 74 characters
		"platform.configurations.acme-corporation.example.org",                                                  // dotted
		"a-configuration-package-with-a-really-long-name-that-still-is-a-valid-dns-subdomain-of-100-characters", // 100
	}[i%4]
	x := newExec(c, name, map[string]any{"package": pkg}, "Configuration", uint64(c.Seed)*313+uint64(i), 2, pkg)
	specs := genObjs(r, "Configuration", 3+r.IntN(3), false, false)
	mcl := mgrClient{x.w.Client("pkgmgr")}
	digest := fmt.Sprintf("sha256:%064x", uint64(i)+1)
	mrec := manager.NewReconciler(xrk.NewManager(x.w, mcl),
		manager.WithNewPackageFn(x.kind.np),
		manager.WithNewPackageRevisionFn(x.kind.nr),
		manager.WithNewPackageRevisionListFn(func() v1.PackageRevisionList { return &v1.ConfigurationRevisionList{} }),
		manager.WithRevisioner(manager.NewPackageRevisioner(stubFetcher{digest}, manager.WithDefaultRegistry("xpkg.example.org"))),
		manager.WithConfigStore(xpkg.NewImageConfigStore(mcl, nsXP)),
	)
	for k := 0; k < 2; k++ {
		if _, err := mrec.Reconcile(bg, reconcile.Request{NamespacedName: types.NamespacedName{Name: pkg}}); err != nil {
			// e.g. an API server that refuses the revision the manager wants to create: then nothing is
			// established, which is fine
			c.Count("manager_created_package_reconcile_errors", 1)
		}
	}
	var revName string
	for _, o := range x.w.ListObjs(x.kind.revGVK.GroupKind()) {
		for _, ow := range sim.OwnerRefs(o) {
			if sim.Str(ow, "uid") == x.pkgUID {
				revName = sim.Str(o, "metadata", "name")
			}
		}
	}
	c.Eval(name, len(pkg) > 63)
	c.Count("manager_created_cases", 1)
	if revName == "" {
		c.Count("manager_created_no_revision", 1)
		return
	}
	rv := x.w.GetObj(sim.Key{Group: x.kind.revGVK.Group, Kind: x.kind.revGVK.Kind, Name: revName})
	ri := &revInfo{Name: revName, UID: sim.Str(rv, "metadata", "uid"), Specs: specs, Content: 1}
	x.revs[revName] = ri
	x.mon.revUIDs[ri.UID] = revName
	for _, s := range specs {
		x.mon.tracked[s.key()] = true
	}
	x.useRealReconciler()
	for k := 0; k < 2; k++ {
		_ = x.reconcile(revName)
	}
	x.flush()
}

func main() {
	if pf := os.Getenv("VERIF_PROFILE"); pf != "" {
		f, _ := os.Create(pf)
		_ = pprof.StartCPUProfile(f)
		defer pprof.StopCPUProfile()
	}
	c := kit.New("C16", "exploration")
	c.Extra("level_detail", "exploration + fault_enumeration")
	c.Rule = "single: a generated set of 1-6 objects a Provider (CRDs of several groups, some with Webhook conversion, webhook configurations) or Configuration (XRDs, Compositions) installs, each with a pre-existing cluster object of class absent / uncontrolled / plain-owned / already controlled by this revision / controlled by the previous revision / released by the previous revision / controlled by another package's revision / controlled by a foreign owner / rejected by scripted admission (absent or existing), established once as active or inactive revision and once more; seq: rev1 installs S1, rev2 ships S2 (drops, keeps, adds; optionally one un-takeable rev2-only object), then upgrade and rollback (thorough: sometimes a third phase) with the reconciles of the two revisions run in each of 8 programs per phase (all 6 orders of deactivate / activate / inactive-establish-after-status-loss, plus the two orders without the status loss), the GC actor after every step, another package deleted mid-way; fault: ServerError / Timeout / ErrorAfter / NoKindMatch / 503 / 409 Conflict at every call index of Establish (single cases) and of ReleaseObjects / Establish inside an upgrade, then a clean retry. distinct = generated case (+ programs, + fault position); non-trivial = >= 2 objects of which >= 1 pre-exists with an owner, or the history has an activate->deactivate transition."
	c.Rule += " intruder: for every call index k of an Establish (single cases and the status-lost inactive Establish) a third party deletes one of the revision's objects right before call k; verdict from the per-write monitors, then a clean retry. Sequences: upgrade, rollback and (half of them) roll forward again."
	c.Rule += " " + "Same-named objects of different kinds in the reconciler sequences (every manifest referenced); packages of 150-270 CRDs with one un-takeable object (a refused Establish writes nothing)."
	c.Rule += " " + "Revisions created by the real package manager for short, dotted, 74- and 100-character package names; a deactivated revision reconciled from a cache that still shows it Active."
	c.Rule += " " + "two-packages: revisions of two packages established by ONE establisher, the first parked before each API call while the second completes; owner references per object equal the sequential run."
	c.Rule += " " + "rfault: an established active revision reconciled again by the real reconciler with a failure at each call, deactivated before any retry, then reconciled as inactive: it controls nothing afterwards."
	c.Assumptions = []string{
		"sim implements the apiserver rules of DESIGN.md 2.2 (dry-run fully validated and not persisted, two controller references rejected, GC by owner UID)",
		"the revision passed to the establisher carries its GroupVersionKind, as objects read through controller-runtime's cache do",
		"the reconciler's use of the establisher is emulated from reconciler.go (ReleaseObjects when Inactive, early return when status.objectRefs is set, Establish(control = Active), status.objectRefs := returned refs)",
		"webhook configurations are only generated for revisions without a TLS secret (no renaming); a dangling controller reference only arises through the scripted deletion of the other package's revision and is pruned by the GC actor before the next step",
		"an inactive revision adding itself as plain owner to an object another package controls is counted (inactive_owner_added_to_foreign_controlled), not judged: the property speaks of taking over",
	}
	c.Floor = 300

	type job struct {
		kind string
		i    int
	}
	var jobs []job
	for i := 0; i < c.N(1500, 8000); i++ {
		jobs = append(jobs, job{"single", i})
	}
	for i := 0; i < c.N(14, 60); i++ {
		jobs = append(jobs, job{"seq", i})
	}
	for i := 0; i < c.N(4, 16); i++ {
		jobs = append(jobs, job{"large", i})
	}
	for i := 0; i < c.N(5, 20); i++ {
		jobs = append(jobs, job{"rseq", i})
	}
	for i := 0; i < c.N(8, 24); i++ {
		jobs = append(jobs, job{"mgr", i})
		jobs = append(jobs, job{"two", i})
		if i%4 == 0 {
			jobs = append(jobs, job{"rfault", i})
		}
	}
	for i := 0; i < c.N(50, 250); i++ {
		jobs = append(jobs, job{"fault", i})
	}
	for i := 0; i < c.N(10, 50); i++ {
		jobs = append(jobs, job{"faultseq", i})
	}
	ch := make(chan job)
	var wg sync.WaitGroup
	for wk := 0; wk < 16; wk++ {
		wg.Add(1)
		go func() {
			defer wg.Done()
			for j := range ch {
				err := kit.Try(func() {
					switch j.kind {
					case "single":
						runSingle(c, j.i)
					case "large":
						runLarge(c, j.i)
					case "mgr":
						runManagerCreated(c, j.i)
					case "two":
						runTwoPackages(c, j.i)
					case "rfault":
						runRealFaultThenDeactivate(c, j.i)
					case "seq":
						runSeq(c, j.i, false)
					case "rseq":
						runSeq(c, j.i, true)
					case "fault":
						runFaultSingle(c, j.i)
					case "faultseq":
						runFaultSeq(c, j.i)
					}
				})
				if err != nil {
					c.Violate("harness:panic", fmt.Sprintf("%s/%d", j.kind, j.i), err.Error(), nil)
				}
			}
		}()
	}
	// long jobs first
	sort.SliceStable(jobs, func(a, b int) bool { return weight(jobs[a].kind) > weight(jobs[b].kind) })
	for _, j := range jobs {
		ch <- j
	}
	close(ch)
	wg.Wait()

	if c.Counter("gc_actions") == 0 {
		c.Inconclusive("the GC actor never had anything to do")
	}
	if c.Counter("refused_active_other-owner-controls") == 0 || c.Counter("establish_ok_active") == 0 || c.Counter("establish_ok_inactive") == 0 {
		c.Inconclusive("a class of Establish outcomes was never observed")
	}
	pprof.StopCPUProfile()
	c.Finish()
}

func weight(k string) int {
	switch k {
	case "seq", "rseq":
		return 3
	case "faultseq":
		return 2
	case "fault":
		return 1
	}
	return 0
}
