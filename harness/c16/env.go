//go:build verif

package main

import (
	"context"
	"fmt"
	"sort"
	"strings"

	corev1 "k8s.io/api/core/v1"
	rbacv1 "k8s.io/api/rbac/v1"
	kerrors "k8s.io/apimachinery/pkg/api/errors"
	"k8s.io/apimachinery/pkg/runtime/schema"
	"k8s.io/apimachinery/pkg/types"
	"k8s.io/apimachinery/pkg/util/validation/field"
	"k8s.io/utils/ptr"
	"sigs.k8s.io/controller-runtime/pkg/client"
	"sigs.k8s.io/controller-runtime/pkg/client/apiutil"

	xpv1 "github.com/crossplane/crossplane-runtime/apis/common/v1"

	v1 "github.com/crossplane/crossplane/apis/pkg/v1"
	"github.com/crossplane/crossplane/internal/controller/pkg/revision"
	"github.com/crossplane/crossplane/verifh/kit"
	"github.com/crossplane/crossplane/verifh/sim"
	"github.com/crossplane/crossplane/verifh/xrk"
)

const (
	actorRev     = "revision" // the revision controller: the establisher under test
	actorSetup   = "setup"    // pre-existing cluster content, the package manager's edits
	actorHarness = "harness"  // reads of the harness itself, status bookkeeping
	nsXP         = "crossplane-system"
	pkgName      = "pk"
	otherPkg     = "other"
	junkPkg      = "junk"
	foreignName  = "some-operator"
	junkCRD      = "leftovers.junk.example.org"
)

var bg = context.Background()

type pkgKind struct {
	Kind, RevKind string
	gvk, revGVK   schema.GroupVersionKind
	np            func() v1.Package
	nr            func() v1.PackageRevision
}

var kinds = map[string]*pkgKind{
	"Provider": {"Provider", "ProviderRevision", v1.ProviderGroupVersionKind, v1.ProviderRevisionGroupVersionKind,
		func() v1.Package { return &v1.Provider{} }, func() v1.PackageRevision { return &v1.ProviderRevision{} }},
	"Configuration": {"Configuration", "ConfigurationRevision", v1.ConfigurationGroupVersionKind, v1.ConfigurationRevisionGroupVersionKind,
		func() v1.Package { return &v1.Configuration{} }, func() v1.PackageRevision { return &v1.ConfigurationRevision{} }},
}

// mgrClient gives the sim client the two behaviours of a controller-runtime manager's client
// the revision controller leans on: a typed object returned by Get carries its
// GroupVersionKind (reads are served by the cache reader, which sets it), and a write
// preserves a GroupVersionKind that was set on the typed object passed in
// (client.resetGroupVersionKind). Owner references and status.objectRefs are built from it.
type mgrClient struct{ *sim.Client }

type cacheLikeClient = mgrClient

func (c mgrClient) Get(ctx context.Context, key client.ObjectKey, obj client.Object, opts ...client.GetOption) error {
	err := c.Client.Get(ctx, key, obj, opts...)
	if err == nil {
		if gvk, e := apiutil.GVKForObject(obj, c.Client.Scheme()); e == nil {
			obj.GetObjectKind().SetGroupVersionKind(gvk)
		}
	}
	return err
}

func keepGVK(obj client.Object) func() {
	gvk := obj.GetObjectKind().GroupVersionKind()
	return func() {
		if !gvk.Empty() {
			obj.GetObjectKind().SetGroupVersionKind(gvk)
		}
	}
}

func (c mgrClient) Create(ctx context.Context, obj client.Object, opts ...client.CreateOption) error {
	defer keepGVK(obj)()
	return c.Client.Create(ctx, obj, opts...)
}

func (c mgrClient) Update(ctx context.Context, obj client.Object, opts ...client.UpdateOption) error {
	defer keepGVK(obj)()
	return c.Client.Update(ctx, obj, opts...)
}

func (c mgrClient) Patch(ctx context.Context, obj client.Object, p client.Patch, opts ...client.PatchOption) error {
	defer keepGVK(obj)()
	return c.Client.Patch(ctx, obj, p, opts...)
}

// revInfo is the harness-side knowledge of one revision of the package under test: which
// manifests its package image contains.
type revInfo struct {
	Name    string
	UID     string
	Specs   []objSpec
	Content int
	TLS     bool
}

// opCtx says which establisher entry point is running for which revision in which role. The
// write monitor judges every write of the revision actor against it.
type opCtx struct {
	Op      string // establish | release | reconcile
	RevName string
	RevUID  string
	PkgUID  string
	Control bool
}

type finding struct{ key, what string }

// monitor is the post-write hook: the "at every instant" part of the oracles.
type monitor struct {
	cur      *opCtx
	tracked  map[sim.Key]bool  // objects of the package under test (O5)
	revUIDs  map[string]string // uid -> name of the existing revisions of the package under test
	found    []finding
	gcLegit  int
	creates  int
	ctlMoves int
}

func (m *monitor) add(key, what string) { m.found = append(m.found, finding{key, what}) }

func (m *monitor) hook(_ *sim.View, ev *sim.Event) {
	if ev.DryRun || !ev.IsWrite() || !isPkgObjKind(ev.Key) {
		return
	}
	// O4 (instant form, any actor): while a revision exists, an owner entry naming it is never
	// dropped from an object that stays
	if ev.Changed && ev.Before != nil && ev.After != nil && (ev.Actor == actorRev || ev.Actor == "gc") {
		for _, o := range ownersOf(ev.Before) {
			n, ok := m.revUIDs[o.UID]
			if !ok {
				continue
			}
			if _, still := findOwner(ev.After, o.UID); still {
				continue
			}
			if m.cur != nil && m.cur.Op == "release" && m.cur.RevUID == o.UID {
				m.add("release-removed-owner-entry:"+ev.Key.Kind, fmt.Sprintf("ReleaseObjects(%s) removed the revision from the owners of %s (after: %s)", n, ev.Key, ownerSummary(ev.After)))
			} else {
				m.add("revision-owner-entry-dropped:"+ev.Actor, fmt.Sprintf("a write by %s removed existing revision %s from the owners of %s (after: %s)", ev.Actor, n, ev.Key, ownerSummary(ev.After)))
			}
		}
	}
	switch ev.Actor {
	case "gc":
		if ev.Verb == "delete" {
			if m.tracked[ev.Key] {
				m.add("gc-deleted-package-object:"+ev.Key.Kind, fmt.Sprintf("the garbage collector deleted %s (owners before: %s) although the package and its revisions still exist", ev.Key, ownerSummary(ev.Before)))
			} else {
				m.gcLegit++
			}
		}
	case actorRev:
		cur := m.cur
		if cur == nil {
			m.add("harness:revision-write-outside-op", "write by the revision actor outside any establisher call: "+ev.Short())
			return
		}
		role := "inactive"
		if cur.Control {
			role = "active"
		}
		if ev.Verb == "create" {
			m.creates++
			// O2: only an active revision's Establish creates
			switch {
			case cur.Op == "release":
				m.add("release-created-object", "ReleaseObjects issued a create: "+ev.Short())
			case !cur.Control:
				m.add("inactive-revision-created-object:"+ev.Key.Kind, fmt.Sprintf("Establish(control=false) of %s issued a create: %s", cur.RevName, ev.Short()))
			}
		}
		if !ev.Changed || ev.After == nil {
			return
		}
		cb, ca := controllerUID(ev.Before), controllerUID(ev.After)
		if ca != "" && ca != cb {
			m.ctlMoves++
			// O3: a controller reference appears only through Establish(control=true) and names the caller
			switch {
			case cur.Op == "release":
				m.add("release-made-controller", fmt.Sprintf("ReleaseObjects(%s) made uid %s the controller of %s", cur.RevName, ca, ev.Key))
			case ca == cur.RevUID && !cur.Control:
				m.add("inactive-establish-became-controller:"+ev.Key.Kind, fmt.Sprintf("Establish(control=false) made %s the controller of %s (owners after: %s)", cur.RevName, ev.Key, ownerSummary(ev.After)))
			case ca != cur.RevUID:
				m.add("establish-set-foreign-controller", fmt.Sprintf("%s Establish of %s made uid %s (not the caller) controller of %s", role, cur.RevName, ca, ev.Key))
			}
			if cb != "" {
				m.add("took-over-controlled-object", fmt.Sprintf("%s replaced controller %s of %s by %s in one write", cur.RevName, cb, ev.Key, ca))
			}
		}
		if cur.Op == "establish" || (cur.Op == "reconcile" && cur.Control) {
			// O6: whatever Establish writes carries the package as a non-controller owner
			if o, ok := findOwner(ev.After, cur.PkgUID); !ok {
				m.add("established-object-without-package-owner:"+role, fmt.Sprintf("%s Establish of %s wrote %s without the package as owner (owners after: %s)", role, cur.RevName, ev.Key, ownerSummary(ev.After)))
			} else if o.Controller {
				m.add("package-is-controller-owner", fmt.Sprintf("%s Establish of %s wrote %s with the package as CONTROLLER", role, cur.RevName, ev.Key))
			}
		}
	}
}

// exec is one simulated cluster with the real establisher of the revision controller.
type exec struct {
	intruded bool  // a third party acts during the current op
	baseRV   int64 // the store's resource version before any object of the package existed
	// staleRevRV != 0: the revision controller reads revisions as of this resource version
	staleRevRV int64
	c          *kit.Ctx
	caseName   string
	desc       any
	w          *sim.World
	cl         *sim.Client
	hc         cacheLikeClient
	setup      *sim.Client
	est        *revision.APIEstablisher
	kind       *pkgKind
	mon        *monitor
	conc       int

	pkg         string // name of the package under test
	pkgUID      string
	otherUID    string
	otherRevUID string
	foreignUID  string
	revs        map[string]*revInfo
	rejected    map[sim.Key]bool

	// reconcile runs one reconcile of a revision: the emulation of the reconciler's use of the
	// establisher, or the real revision.Reconciler
	reconcile func(revName string) error
	real      *realRec

	ops   []string
	stats map[string]int64
}

func (x *exec) count(k string, n int64) { x.stats[k] += n }

func (x *exec) flush() {
	x.stats["gc_deletes_of_deleted_packages_objects"] += int64(x.mon.gcLegit)
	x.stats["creates_by_active_establish"] += int64(x.mon.creates)
	x.stats["controller_reference_moves"] += int64(x.mon.ctlMoves)
	x.mon.gcLegit, x.mon.creates, x.mon.ctlMoves = 0, 0, 0
	ks := make([]string, 0, len(x.stats))
	for k := range x.stats {
		ks = append(ks, k)
	}
	sort.Strings(ks)
	for _, k := range ks {
		x.c.Count(k, x.stats[k])
	}
	x.stats = map[string]int64{}
}

func must(err error) {
	if err != nil {
		panic(err)
	}
}

// attach wires clients, the establisher and the monitor to x.w.
func (x *exec) attach() {
	// the revision controller's client; while x.staleRevRV is set its reads of package revisions are
	// served as of that resource version (an informer cache that has not caught up yet)
	x.cl = x.w.LaggingClient(actorRev, func(gk schema.GroupKind) (int64, bool) {
		if rv := x.staleRevRV; rv != 0 && gk.Group == "pkg.crossplane.io" && strings.HasSuffix(gk.Kind, "Revision") {
			return -rv, true
		}
		return 0, false
	})
	x.hc = cacheLikeClient{x.w.Client(actorHarness)}
	x.setup = x.w.Client(actorSetup)
	x.est = revision.NewAPIEstablisher(mgrClient{x.cl}, nsXP, x.conc)
	x.mon = &monitor{tracked: map[sim.Key]bool{}, revUIDs: map[string]string{}}
	for _, ri := range x.revs {
		x.mon.revUIDs[ri.UID] = ri.Name
		for _, s := range ri.Specs {
			x.mon.tracked[s.key()] = true
		}
	}
	x.w.AddHook(x.mon.hook)
	x.reconcile = x.reconcileEmu
}

func newExec(c *kit.Ctx, caseName string, desc any, kindName string, seed uint64, conc int, pkg ...string) *exec {
	x := &exec{c: c, caseName: caseName, desc: desc, kind: kinds[kindName], conc: conc, pkg: pkgName,
		revs: map[string]*revInfo{}, rejected: map[sim.Key]bool{}, stats: map[string]int64{}}
	if len(pkg) > 0 && pkg[0] != "" {
		x.pkg = pkg[0]
	}
	x.w = sim.NewWorld(xrk.Scheme(), seed)
	x.attach()
	rej := x.rejected
	x.w.AddAdmission(func(_ *sim.World, req *sim.AdmitRequest) error {
		if req.Actor == actorRev && rej[req.Key] {
			return kerrors.NewInvalid(req.Key.GK(), req.Key.Name, field.ErrorList{field.Invalid(field.NewPath("spec"), "", "scripted: the API server rejects this object")})
		}
		return nil
	})
	// the package under test, another package with an active revision, a package that the
	// harness deletes mid-way (so that the GC actor has legitimate work), and a foreign owner
	x.pkgUID = x.mkPackage(x.pkg)
	x.otherUID = x.mkPackage(otherPkg)
	x.otherRevUID = x.mkRevisionRaw(otherPkg, x.otherUID, otherPkg+"-r1", 1, v1.PackageRevisionActive, false, false)
	jUID := x.mkPackage(junkPkg)
	jrUID := x.mkRevisionRaw(junkPkg, jUID, junkPkg+"-r1", 1, v1.PackageRevisionActive, false, false)
	x.seedWithOwners(objSpec{Kind: "crd", Name: junkCRD}, 0,
		ownerRef(x.kind.revGVK, junkPkg+"-r1", jrUID, true), ownerRef(x.kind.gvk, junkPkg, jUID, false))
	cr := &rbacv1.ClusterRole{}
	cr.SetName(foreignName)
	must(x.setup.Create(bg, cr))
	x.foreignUID = string(cr.GetUID())
	x.baseRV = x.w.RV()
	return x
}

// relag rebuilds the establisher over a client whose reads lag as given.
func (x *exec) relag(lag func(gk schema.GroupKind) (int64, bool)) {
	x.cl = x.w.LaggingClient(actorRev, lag)
	x.est = revision.NewAPIEstablisher(mgrClient{x.cl}, nsXP, x.conc)
}

// fork continues on an independent copy of the cluster (fault enumeration).
func (x *exec) fork(caseName string) *exec {
	n := &exec{c: x.c, caseName: caseName, desc: x.desc, kind: x.kind, conc: x.conc,
		baseRV: x.baseRV, pkg: x.pkg, pkgUID: x.pkgUID, otherUID: x.otherUID, otherRevUID: x.otherRevUID, foreignUID: x.foreignUID,
		revs: map[string]*revInfo{}, rejected: x.rejected, stats: map[string]int64{}}
	for k, v := range x.revs {
		cp := *v
		n.revs[k] = &cp
	}
	n.ops = append([]string(nil), x.ops...)
	n.w = x.w.Clone()
	n.attach()
	return n
}

func (x *exec) mkPackage(name string) string {
	p := x.kind.np()
	p.SetName(name)
	p.SetSource("xpkg.example.org/" + name + ":v1")
	must(x.setup.Create(bg, p))
	return string(p.GetUID())
}

func (x *exec) mkRevisionRaw(pkg, pkgUID, revName string, no int, state v1.PackageRevisionDesiredState, tls, commonLabels bool) string {
	pr := x.kind.nr()
	pr.SetName(revName)
	pr.SetLabels(map[string]string{v1.LabelParentPackage: pkg})
	// as the package manager does: the package is the controller owner of its revisions
	pr.SetOwnerReferences([]ownerRefT{ownerRef(x.kind.gvk, pkg, pkgUID, true)})
	pr.SetSource(fmt.Sprintf("xpkg.example.org/%s:v%d", pkg, no))
	pr.SetRevision(int64(no))
	pr.SetDesiredState(state)
	if commonLabels {
		pr.SetCommonLabels(map[string]string{"example.org/team": "infra"})
	}
	if tls {
		if wr, ok := pr.(v1.PackageRevisionWithRuntime); ok {
			wr.SetTLSServerSecretName(ptr.To(pkg + "-tls-server"))
		}
	}
	must(x.setup.Create(bg, pr))
	return string(pr.GetUID())
}

// mkRevision creates a revision of the package under test.
func (x *exec) mkRevision(revName string, no int, state v1.PackageRevisionDesiredState, specs []objSpec, content int, tls, commonLabels bool) *revInfo {
	uid := x.mkRevisionRaw(x.pkg, x.pkgUID, revName, no, state, tls, commonLabels)
	ri := &revInfo{Name: revName, UID: uid, Specs: specs, Content: content, TLS: tls}
	x.revs[revName] = ri
	x.mon.revUIDs[uid] = revName
	for _, s := range specs {
		x.mon.tracked[s.key()] = true
	}
	return ri
}

func (x *exec) mkTLSSecret() {
	s := &corev1.Secret{}
	s.SetName(pkgName + "-tls-server")
	s.SetNamespace(nsXP)
	s.Data = map[string][]byte{"tls.crt": []byte("CABUNDLE"), "tls.key": []byte("KEY")}
	must(x.setup.Create(bg, s))
}

func (x *exec) seedWithOwners(s objSpec, content int, owners ...ownerRefT) {
	o := s.build(content).(client.Object)
	if len(owners) > 0 {
		o.SetOwnerReferences(owners)
	}
	must(x.setup.Create(bg, o))
}

// seedClass puts the pre-existing cluster object of the given class in place. prev is the
// previous revision of the package under test (classes prevctl / prevreleased), self the
// revision that is about to establish (class self).
func (x *exec) seedClass(s objSpec, class string, content int, prev, self *revInfo) {
	pkgO := ownerRef(x.kind.gvk, x.pkg, x.pkgUID, false)
	pkgO.BlockOwnerDeletion = ptr.To(true)
	switch class {
	case "absent", "rejected-absent":
	case "uncontrolled", "rejected-existing":
		x.seedWithOwners(s, content)
	case "plainowned":
		x.seedWithOwners(s, content, ownerRef(rbacv1.SchemeGroupVersion.WithKind("ClusterRole"), foreignName, x.foreignUID, false))
	case "self":
		x.seedWithOwners(s, content, ownerRef(x.kind.revGVK, self.Name, self.UID, true), pkgO)
	case "prevctl":
		x.seedWithOwners(s, content, ownerRef(x.kind.revGVK, prev.Name, prev.UID, true), pkgO)
	case "prevreleased":
		r := ownerRef(x.kind.revGVK, prev.Name, prev.UID, false)
		r.Controller = ptr.To(false)
		r.BlockOwnerDeletion = ptr.To(true)
		x.seedWithOwners(s, content, r, pkgO)
	case "otherpkg":
		x.seedWithOwners(s, content, ownerRef(x.kind.revGVK, otherPkg+"-r1", x.otherRevUID, true), ownerRef(x.kind.gvk, otherPkg, x.otherUID, false))
	case "foreignctl":
		x.seedWithOwners(s, content, ownerRef(rbacv1.SchemeGroupVersion.WithKind("ClusterRole"), foreignName, x.foreignUID, true))
	default:
		panic("unknown class " + class)
	}
	if strings.HasPrefix(class, "rejected") {
		x.rejected[s.key()] = true
	}
}

func (x *exec) loadRev(name string) v1.PackageRevision {
	pr := x.kind.nr()
	must(x.hc.Get(bg, types.NamespacedName{Name: name}, pr))
	return pr
}

func (x *exec) setState(name string, st v1.PackageRevisionDesiredState) {
	pr := x.loadRev(name)
	pr.SetDesiredState(st)
	must(x.setup.Update(bg, pr))
}

func (x *exec) setRefs(pr v1.PackageRevision, refs []xpv1.TypedReference) {
	sort.Slice(refs, func(i, j int) bool {
		return refs[i].GroupVersionKind().String()+"/"+refs[i].Name > refs[j].GroupVersionKind().String()+"/"+refs[j].Name
	})
	pr.SetObjects(refs)
	must(x.hc.Status().Update(bg, pr))
}

func shorts(log []sim.Event) []string {
	out := make([]string, 0, len(log))
	for i := range log {
		out = append(out, log[i].Short())
	}
	return out
}

func (x *exec) witness(log []sim.Event) any {
	return map[string]any{"case": x.desc, "ops": x.ops, "trace_of_last_op": shorts(log)}
}

// report turns monitor findings into violations.
func (x *exec) report(log []sim.Event) {
	for _, f := range x.mon.found {
		x.c.Violate(f.key, x.caseName, f.what, x.witness(log))
	}
	x.mon.found = nil
}

// predictRefusal is the independent statement of "cannot be taken over", evaluated on the
// store as it is before the call.
func (x *exec) predictRefusal(ri *revInfo, control bool) []string {
	var out []string
	for _, s := range ri.Specs {
		k := s.key()
		cur := x.w.GetObj(k)
		if x.rejected[k] && (cur != nil || control) {
			out = append(out, "admission-rejected")
		}
		if !control {
			continue
		}
		if cu := controllerUID(cur); cu != "" && cu != ri.UID {
			cls := "other-owner-controls"
			for _, o := range x.revs {
				if o.UID == cu {
					cls = "same-package-revision-controls"
				}
			}
			out = append(out, cls)
		}
		if s.Conv && !ri.TLS {
			out = append(out, "conversion-webhook-without-ca")
		}
	}
	sort.Strings(out)
	return out
}

type opResult struct {
	err      error
	refs     []xpv1.TypedReference
	log      []sim.Event
	faultHit bool
	refused  []string
	calls    int
}

func (x *exec) noteFault(log []sim.Event) bool {
	hit := false
	for i := range log {
		e := &log[i]
		if e.Injected == "" {
			continue
		}
		hit = true
		pos := "write"
		switch {
		case e.Verb == "get":
			pos = "get"
		case e.DryRun:
			pos = "dryrun"
		}
		x.count("fault_"+e.Injected+"_at_"+pos, 1)
	}
	return hit
}

// establish calls the real Establish for the named revision with fresh objects, as one
// reconcile of the revision controller does, and evaluates the per-call oracles.
func (x *exec) establish(revName string, control bool) opResult {
	ri := x.revs[revName]
	pr := x.loadRev(revName)
	role := "inactive"
	if control {
		role = "active"
	}
	var r opResult
	r.refused = x.predictRefusal(ri, control)
	foreignCtl := 0
	if !control {
		for _, s := range ri.Specs {
			if cu := controllerUID(x.w.GetObj(s.key())); cu != "" && cu != ri.UID {
				foreignCtl++
			}
		}
	}
	objs := buildAll(ri.Specs, ri.Content)
	x.mon.cur = &opCtx{Op: "establish", RevName: revName, RevUID: ri.UID, PkgUID: x.pkgUID, Control: control}
	x.cl.ResetCalls()
	from := x.w.LogLen()
	perr := kit.Try(func() { r.refs, r.err = x.est.Establish(bg, objs, pr, control) })
	x.mon.cur = nil
	x.cl.ClearFaults()
	r.calls = x.cl.Calls()
	r.log = x.w.Log(from)
	r.faultHit = x.noteFault(r.log)
	x.ops = append(x.ops, fmt.Sprintf("Establish(%s,control=%v) -> %v", revName, control, r.err))
	x.count("establish_"+role, 1)
	if perr != nil {
		x.c.Violate("panic-in-establish", x.caseName, perr.Error(), x.witness(r.log))
		r.err = perr
		return r
	}
	var real []string
	for i := range r.log {
		e := &r.log[i]
		if e.Actor != actorRev || !e.IsWrite() {
			continue
		}
		if e.DryRun {
			x.count("dryrun_writes", 1)
		} else {
			x.count("real_writes", 1)
			real = append(real, e.Short())
		}
	}
	x.report(r.log)
	if x.intruded {
		// the cluster was changed by a third party during the call: predictions made from the
		// state before the call do not apply; only the per-write monitors judge this call
		x.count("establish_with_intruder", 1)
		return r
	}

	if x.judgeRefusal(revName, role, r.refused, real, r.err, r.log) {
		return r
	}
	if r.err != nil {
		if !r.faultHit {
			x.c.Violate("harness:unexpected-establish-error", x.caseName, fmt.Sprintf("%s Establish of %s failed without a predicted reason: %v", role, revName, r.err), x.witness(r.log))
		}
		x.count("establish_failed_by_fault", 1)
		return r
	}
	x.count("establish_ok_"+role, 1)
	if foreignCtl > 0 {
		// not judged: the property speaks of taking over; an inactive revision only adds itself as owner
		x.count("inactive_owner_added_to_foreign_controlled", int64(foreignCtl))
	}
	x.checkPostEstablish(ri, control, r.log)
	return r
}

// judgeRefusal is O1: when an object cannot be taken over, nothing is written (and the call
// does not report success). It reports whether a refusal was predicted.
func (x *exec) judgeRefusal(revName, role string, refused, real []string, err error, log []sim.Event) bool {
	if len(refused) == 0 {
		return false
	}
	cls := refused[0]
	x.count("refused_"+role+"_"+cls, 1)
	if len(real) > 0 {
		x.c.Violate("refused-establish-wrote:"+cls, x.caseName,
			fmt.Sprintf("%s Establish of %s cannot succeed (%v; returned: %v) yet it issued %d non-dry-run write(s): %v", role, revName, refused, err, len(real), real), x.witness(log))
	}
	if err == nil {
		x.c.Violate("untakeable-object-ignored:"+cls, x.caseName,
			fmt.Sprintf("%s Establish of %s returned success although an object cannot be taken over (%v)", role, revName, refused), x.witness(log))
	}
	return true
}

// checkPostEstablish judges the store after a successful Establish (O3, O6).
func (x *exec) checkPostEstablish(ri *revInfo, control bool, log []sim.Event) {
	role := "inactive"
	if control {
		role = "active"
	}
	revName := ri.Name
	for _, s := range ri.Specs {
		k := s.key()
		o := x.w.GetObj(k)
		if o == nil {
			if control {
				x.c.Violate("active-establish-left-object-missing:"+s.Kind, x.caseName, fmt.Sprintf("Establish(control=true) of %s succeeded but %s does not exist", revName, k), x.witness(log))
			} else {
				x.count("inactive_skipped_absent", 1)
			}
			continue
		}
		if po, ok := findOwner(o, x.pkgUID); !ok || po.Controller {
			x.c.Violate("established-object-without-package-owner:"+role, x.caseName,
				fmt.Sprintf("after a successful %s Establish of %s, %s does not have the package as non-controller owner (owners: %s)", role, revName, k, ownerSummary(o)), x.witness(log))
		}
		cu := controllerUID(o)
		if control && cu != ri.UID {
			x.c.Violate("active-establish-did-not-take-control:"+s.Kind, x.caseName,
				fmt.Sprintf("Establish(control=true) of %s succeeded but the controller of %s is %q (owners: %s)", revName, k, cu, ownerSummary(o)), x.witness(log))
		}
		if !control && cu == ri.UID {
			x.c.Violate("inactive-revision-is-controller:"+s.Kind, x.caseName,
				fmt.Sprintf("after Establish(control=false) %s is the controller of %s", revName, k), x.witness(log))
		}
	}
}

func refKey(r xpv1.TypedReference) sim.Key {
	gvk := r.GroupVersionKind()
	return sim.Key{Group: gvk.Group, Kind: gvk.Kind, Name: r.Name}
}

// release calls the real ReleaseObjects (deactivation) and checks O4.
func (x *exec) release(revName string) opResult {
	ri := x.revs[revName]
	pr := x.loadRev(revName)
	var r opResult
	x.mon.cur = &opCtx{Op: "release", RevName: revName, RevUID: ri.UID, PkgUID: x.pkgUID}
	x.cl.ResetCalls()
	from := x.w.LogLen()
	perr := kit.Try(func() { r.err = x.est.ReleaseObjects(bg, pr) })
	x.mon.cur = nil
	x.cl.ClearFaults()
	r.calls = x.cl.Calls()
	r.log = x.w.Log(from)
	r.faultHit = x.noteFault(r.log)
	x.ops = append(x.ops, fmt.Sprintf("ReleaseObjects(%s; %d refs) -> %v", revName, len(pr.GetObjects()), r.err))
	x.count("release_calls", 1)
	if perr != nil {
		x.c.Violate("panic-in-release", x.caseName, perr.Error(), x.witness(r.log))
		r.err = perr
		return r
	}
	for i := range r.log {
		if e := &r.log[i]; e.Actor == actorRev && e.IsWrite() && !e.DryRun {
			x.count("real_writes", 1)
		}
	}
	x.report(r.log)
	if r.err != nil {
		if !r.faultHit {
			x.c.Violate("harness:unexpected-release-error", x.caseName, fmt.Sprintf("ReleaseObjects(%s) failed: %v", revName, r.err), x.witness(r.log))
		}
		return r
	}
	x.checkPostRelease(ri, pr.GetObjects(), r.log)
	return r
}

// checkPostRelease is O4: control given up, ownership kept, for everything the revision had
// established.
func (x *exec) checkPostRelease(ri *revInfo, refs []xpv1.TypedReference, log []sim.Event) {
	for _, ref := range refs {
		k := refKey(ref)
		o := x.w.GetObj(k)
		if o == nil {
			continue
		}
		x.count("released_objects", 1)
		ow, ok := findOwner(o, ri.UID)
		switch {
		case !ok:
			x.c.Violate("released-revision-not-owner:"+k.Kind, x.caseName, fmt.Sprintf("after ReleaseObjects(%s) the revision is no longer an owner of %s (owners: %s)", ri.Name, k, ownerSummary(o)), x.witness(log))
		case ow.Controller:
			x.c.Violate("released-revision-still-controller:"+k.Kind, x.caseName, fmt.Sprintf("after ReleaseObjects(%s) the revision still controls %s", ri.Name, k), x.witness(log))
		}
	}
}

// reconcileEmu is what one reconcile of the revision controller does with the establisher
// (reconciler.go: deactivateRevision; early return when status.objectRefs is populated;
// Establish with control = desiredState==Active; SetObjects + status update on success).
func (x *exec) reconcileEmu(revName string) error {
	pr := x.loadRev(revName)
	active := pr.GetDesiredState() == v1.PackageRevisionActive
	if !active {
		if r := x.release(revName); r.err != nil {
			return r.err
		}
		if len(pr.GetObjects()) > 0 {
			return nil
		}
	}
	r := x.establish(revName, active)
	if r.err != nil {
		return r.err
	}
	x.setRefs(x.loadRev(revName), r.refs)
	return nil
}

// loseStatus models a backup/restore that dropped the status subresource.
func (x *exec) loseStatus(revName string) {
	pr := x.loadRev(revName)
	pr.SetObjects(nil)
	must(x.hc.Status().Update(bg, pr))
	x.ops = append(x.ops, "status of "+revName+" lost")
}

// gc lets the garbage collector run to quiescence.
func (x *exec) gc() {
	from := x.w.LogLen()
	n := x.w.GCRun(50)
	x.count("gc_runs", 1)
	x.count("gc_actions", int64(n))
	if n > 0 {
		x.ops = append(x.ops, fmt.Sprintf("GC: %d action(s)", n))
	}
	if len(x.mon.found) > 0 {
		x.report(x.w.Log(from))
	}
}

// deletePackage removes a package and its revision behind the controllers' back.
func (x *exec) deletePackage(pkg string, alsoPackage bool) {
	pr := x.kind.nr()
	pr.SetName(pkg + "-r1")
	_ = x.setup.Delete(bg, pr)
	if alsoPackage {
		p := x.kind.np()
		p.SetName(pkg)
		_ = x.setup.Delete(bg, p)
	}
	x.ops = append(x.ops, fmt.Sprintf("deleted revision of package %s (package too: %v)", pkg, alsoPackage))
}

// ownersState is the canonical owner-reference state of the package's objects, for
// comparing a faulted-then-retried run with the fault-free one.
func (x *exec) ownersState() string {
	var ks []sim.Key
	for k := range x.mon.tracked {
		ks = append(ks, k)
	}
	sort.Slice(ks, func(i, j int) bool { return ks[i].String() < ks[j].String() })
	var b strings.Builder
	for _, k := range ks {
		o := x.w.GetObj(k)
		if o == nil {
			fmt.Fprintf(&b, "%s: absent\n", k)
			continue
		}
		var os []string
		for _, r := range ownersOf(o) {
			os = append(os, fmt.Sprintf("%s/%s:%v", r.Kind, r.Name, r.Controller))
		}
		sort.Strings(os)
		ann := sim.ToMeta(o).Annotations["example.org/content"]
		fmt.Fprintf(&b, "%s: content=%s owners=%v\n", k, ann, os)
	}
	return b.String()
}
