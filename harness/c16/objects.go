//go:build verif

package main

import (
	"fmt"
	"strings"

	admv1 "k8s.io/api/admissionregistration/v1"
	extv1 "k8s.io/apiextensions-apiserver/pkg/apis/apiextensions/v1"
	metav1 "k8s.io/apimachinery/pkg/apis/meta/v1"
	"k8s.io/apimachinery/pkg/runtime"
	"k8s.io/apimachinery/pkg/runtime/schema"
	"k8s.io/apimachinery/pkg/types"
	"k8s.io/utils/ptr"

	apiextv1 "github.com/crossplane/crossplane/apis/apiextensions/v1"
	"github.com/crossplane/crossplane/verifh/sim"
)

// objSpec names one object a package installs. Name is the metadata.name; for CRDs and XRDs it
// is <plural>.<group>, from which group and kind are derived.
type objSpec struct {
	Kind string `json:"kind"` // crd | xrd | comp | vwc | mwc
	Name string `json:"name"`
	Conv bool   `json:"conv,omitempty"` // CRD with the Webhook conversion strategy
}

var (
	crdPool  = []string{"widgets.alpha.example.org", "gadgets.beta.example.org", "gizmos.gamma.example.org", "buckets.delta.example.org", "queues.alpha.example.org", "tables.eps.example.org", "topics.zeta.example.org"}
	xrdPool  = []string{"xdatabases.cfg.example.org", "xnetworks.cfg.example.org", "xclusters.plat.example.org", "xqueues.msg.example.org"}
	compPool = []string{"comp-db-small", "comp-db-large", "comp-net", "comp-cluster"}
)

const (
	kindCRD  = "CustomResourceDefinition"
	kindXRD  = "CompositeResourceDefinition"
	kindComp = "Composition"
	kindVWC  = "ValidatingWebhookConfiguration"
	kindMWC  = "MutatingWebhookConfiguration"
)

func (s objSpec) key() sim.Key {
	switch s.Kind {
	case "crd":
		return sim.Key{Group: "apiextensions.k8s.io", Kind: kindCRD, Name: s.Name}
	case "xrd":
		return sim.Key{Group: "apiextensions.crossplane.io", Kind: kindXRD, Name: s.Name}
	case "comp":
		return sim.Key{Group: "apiextensions.crossplane.io", Kind: kindComp, Name: s.Name}
	case "vwc":
		return sim.Key{Group: "admissionregistration.k8s.io", Kind: kindVWC, Name: s.Name}
	case "mwc":
		return sim.Key{Group: "admissionregistration.k8s.io", Kind: kindMWC, Name: s.Name}
	}
	panic("unknown object kind " + s.Kind)
}

// isPkgObjKind reports whether the key is of a kind that packages install.
func isPkgObjKind(k sim.Key) bool {
	switch k.Kind {
	case kindCRD, kindVWC, kindMWC:
		return k.Group == "apiextensions.k8s.io" || k.Group == "admissionregistration.k8s.io"
	case kindXRD, kindComp:
		return k.Group == "apiextensions.crossplane.io"
	}
	return false
}

func splitName(n string) (plural, group, kind string) {
	i := strings.Index(n, ".")
	plural, group = n[:i], n[i+1:]
	sing := strings.TrimSuffix(plural, "s")
	kind = strings.ToUpper(sing[:1]) + sing[1:]
	return plural, group, kind
}

func openSchema() *extv1.CustomResourceValidation {
	return &extv1.CustomResourceValidation{OpenAPIV3Schema: &extv1.JSONSchemaProps{Type: "object", XPreserveUnknownFields: ptr.To(true)}}
}

// build returns a fresh typed object as the package parser would hand it to the establisher
// (TypeMeta set, no owner references). content selects the "version" of the manifest: a higher
// revision of a package ships a CRD with more served versions, etc., so that updates are real.
func (s objSpec) build(content int) runtime.Object {
	if content < 0 {
		content = 0
	}
	ann := map[string]string{"example.org/content": fmt.Sprint(content)}
	switch s.Kind {
	case "crd":
		plural, group, kind := splitName(s.Name)
		o := &extv1.CustomResourceDefinition{}
		o.SetGroupVersionKind(extv1.SchemeGroupVersion.WithKind(kindCRD))
		o.SetName(s.Name)
		o.SetAnnotations(ann)
		o.Spec.Group = group
		o.Spec.Scope = extv1.ClusterScoped
		o.Spec.Names = extv1.CustomResourceDefinitionNames{Plural: plural, Singular: strings.ToLower(kind), Kind: kind, ListKind: kind + "List"}
		n := 1 + content%3
		for v := 0; v < n; v++ {
			o.Spec.Versions = append(o.Spec.Versions, extv1.CustomResourceDefinitionVersion{
				Name: fmt.Sprintf("v1alpha%d", v+1), Served: true, Storage: v == n-1, Schema: openSchema(),
				Subresources: &extv1.CustomResourceSubresources{Status: &extv1.CustomResourceSubresourceStatus{}},
			})
		}
		if s.Conv {
			o.Spec.Conversion = &extv1.CustomResourceConversion{Strategy: extv1.WebhookConverter,
				Webhook: &extv1.WebhookConversion{ConversionReviewVersions: []string{"v1"}}}
		}
		return o
	case "xrd":
		plural, group, kind := splitName(s.Name)
		o := &apiextv1.CompositeResourceDefinition{}
		o.SetGroupVersionKind(apiextv1.CompositeResourceDefinitionGroupVersionKind)
		o.SetName(s.Name)
		o.SetAnnotations(ann)
		o.Spec.Group = group
		o.Spec.Names = extv1.CustomResourceDefinitionNames{Plural: plural, Singular: strings.ToLower(kind), Kind: kind, ListKind: kind + "List"}
		n := 1 + content%2
		for v := 0; v < n; v++ {
			o.Spec.Versions = append(o.Spec.Versions, apiextv1.CompositeResourceDefinitionVersion{
				Name: fmt.Sprintf("v1alpha%d", v+1), Served: true, Referenceable: v == n-1,
				Schema: &apiextv1.CompositeResourceValidation{OpenAPIV3Schema: runtime.RawExtension{Raw: []byte(`{"type":"object","x-kubernetes-preserve-unknown-fields":true}`)}},
			})
		}
		return o
	case "comp":
		o := &apiextv1.Composition{}
		o.SetGroupVersionKind(apiextv1.CompositionGroupVersionKind)
		o.SetName(s.Name)
		o.SetAnnotations(ann)
		o.SetLabels(map[string]string{"example.org/tier": fmt.Sprintf("t%d", content)})
		o.Spec.CompositeTypeRef = apiextv1.TypeReference{APIVersion: "cfg.example.org/v1alpha1", Kind: "XDatabase"}
		o.Spec.Mode = ptr.To(apiextv1.CompositionModePipeline)
		for i := 0; i <= content%2; i++ {
			o.Spec.Pipeline = append(o.Spec.Pipeline, apiextv1.PipelineStep{Step: fmt.Sprintf("s%d", i), FunctionRef: apiextv1.FunctionReference{Name: "fn"}})
		}
		return o
	case "vwc":
		o := &admv1.ValidatingWebhookConfiguration{}
		o.SetGroupVersionKind(admv1.SchemeGroupVersion.WithKind(kindVWC))
		o.SetName(s.Name)
		o.SetAnnotations(ann)
		o.Webhooks = []admv1.ValidatingWebhook{{
			Name: "v.example.org", AdmissionReviewVersions: []string{"v1"}, SideEffects: ptr.To(admv1.SideEffectClassNone),
			ClientConfig: admv1.WebhookClientConfig{Service: &admv1.ServiceReference{Name: "svc", Namespace: "ns", Path: ptr.To(fmt.Sprintf("/validate-%d", content))}},
		}}
		return o
	case "mwc":
		o := &admv1.MutatingWebhookConfiguration{}
		o.SetGroupVersionKind(admv1.SchemeGroupVersion.WithKind(kindMWC))
		o.SetName(s.Name)
		o.SetAnnotations(ann)
		o.Webhooks = []admv1.MutatingWebhook{{
			Name: "m.example.org", AdmissionReviewVersions: []string{"v1"}, SideEffects: ptr.To(admv1.SideEffectClassNone),
			ClientConfig: admv1.WebhookClientConfig{Service: &admv1.ServiceReference{Name: "svc", Namespace: "ns", Path: ptr.To(fmt.Sprintf("/mutate-%d", content))}},
		}}
		return o
	}
	panic("unknown object kind " + s.Kind)
}

func buildAll(specs []objSpec, content int) []runtime.Object {
	out := make([]runtime.Object, 0, len(specs))
	for _, s := range specs {
		out = append(out, s.build(content))
	}
	return out
}

func ownerRef(gvk schema.GroupVersionKind, name, uid string, controller bool) metav1.OwnerReference {
	r := metav1.OwnerReference{APIVersion: gvk.GroupVersion().String(), Kind: gvk.Kind, Name: name, UID: types.UID(uid)}
	if controller {
		r.Controller = ptr.To(true)
		r.BlockOwnerDeletion = ptr.To(true)
	}
	return r
}

// ownerInfo is what the oracles need of one owner reference.
type ownerInfo struct {
	UID        string
	Kind, Name string
	Controller bool
}

func ownersOf(o map[string]any) []ownerInfo {
	var out []ownerInfo
	for _, r := range sim.OwnerRefs(o) {
		c, _ := r["controller"].(bool)
		out = append(out, ownerInfo{UID: sim.Str(r, "uid"), Kind: sim.Str(r, "kind"), Name: sim.Str(r, "name"), Controller: c})
	}
	return out
}

func controllerUID(o map[string]any) string {
	if o == nil {
		return ""
	}
	if c := sim.ControllerOf(o); c != nil {
		return sim.Str(c, "uid")
	}
	return ""
}

func findOwner(o map[string]any, uid string) (ownerInfo, bool) {
	for _, r := range ownersOf(o) {
		if r.UID == uid {
			return r, true
		}
	}
	return ownerInfo{}, false
}

func ownerSummary(o map[string]any) string {
	if o == nil {
		return "<absent>"
	}
	var parts []string
	for _, r := range ownersOf(o) {
		s := r.Kind + "/" + r.Name
		if r.Controller {
			s += "(controller)"
		}
		parts = append(parts, s)
	}
	if len(parts) == 0 {
		return "<no owners>"
	}
	return strings.Join(parts, ",")
}

type ownerRefT = metav1.OwnerReference
