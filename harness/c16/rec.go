//go:build verif

package main

import (
	"bytes"
	"context"
	"errors"
	"fmt"
	"io"
	"sync"

	"k8s.io/apimachinery/pkg/runtime"
	"k8s.io/apimachinery/pkg/types"
	"sigs.k8s.io/controller-runtime/pkg/reconcile"
	"sigs.k8s.io/yaml"

	"github.com/crossplane/crossplane-runtime/pkg/parser"

	v1 "github.com/crossplane/crossplane/apis/pkg/v1"
	"github.com/crossplane/crossplane/internal/controller/pkg/revision"
	"github.com/crossplane/crossplane/internal/dag"
	"github.com/crossplane/crossplane/internal/xpkg"
	"github.com/crossplane/crossplane/verifh/kit"
	"github.com/crossplane/crossplane/verifh/xrk"
)

// memCache is the package cache: revision name -> package.yaml stream. It is the only fake
// of the reconciler-level driver (the image backend is never reached because every package is
// "already cached"); parser, linter, dependency manager, image-config store, finalizer and
// establisher are the production ones.
type memCache struct {
	mu sync.Mutex
	m  map[string][]byte
}

func (c *memCache) Has(id string) bool {
	c.mu.Lock()
	defer c.mu.Unlock()
	_, ok := c.m[id]
	return ok
}

func (c *memCache) Get(id string) (io.ReadCloser, error) {
	c.mu.Lock()
	defer c.mu.Unlock()
	b, ok := c.m[id]
	if !ok {
		return nil, errors.New("not cached")
	}
	return io.NopCloser(bytes.NewReader(b)), nil
}

func (c *memCache) Store(id string, content io.ReadCloser) error {
	b, err := io.ReadAll(content)
	if err != nil {
		return err
	}
	c.mu.Lock()
	defer c.mu.Unlock()
	c.m[id] = b
	return nil
}

func (c *memCache) Delete(id string) error {
	c.mu.Lock()
	defer c.mu.Unlock()
	delete(c.m, id)
	return nil
}

var (
	schemesOnce           sync.Once
	metaScheme, objScheme *runtime.Scheme
)

func pkgSchemes() (*runtime.Scheme, *runtime.Scheme) {
	schemesOnce.Do(func() {
		var err error
		metaScheme, err = xpkg.BuildMetaScheme()
		must(err)
		objScheme, err = xpkg.BuildObjectScheme()
		must(err)
	})
	return metaScheme, objScheme
}

// packageYAML renders the package.yaml stream of a revision: the meta object and the manifests.
func packageYAML(kind string, specs []objSpec, content int) []byte {
	var b bytes.Buffer
	switch kind {
	case "Provider":
		fmt.Fprintf(&b, "apiVersion: meta.pkg.crossplane.io/v1\nkind: Provider\nmetadata:\n  name: %s\nspec:\n  controller:\n    image: xpkg.example.org/%s-controller:v%d\n", pkgName, pkgName, content)
	default:
		fmt.Fprintf(&b, "apiVersion: meta.pkg.crossplane.io/v1\nkind: Configuration\nmetadata:\n  name: %s\n", pkgName)
	}
	for _, s := range specs {
		y, err := yaml.Marshal(s.build(content))
		must(err)
		b.WriteString("---\n")
		b.Write(y)
	}
	return b.Bytes()
}

// realRec is the real revision.Reconciler over the sim client.
type realRec struct {
	rec   *revision.Reconciler
	cache *memCache
}

// useRealReconciler switches x.reconcile to the production reconciler, constructed as
// SetupProviderRevision / SetupConfigurationRevision do (without runtime hooks: the package
// runtime is not part of this property).
func (x *exec) useRealReconciler() {
	ms, os := pkgSchemes()
	cl := mgrClient{x.cl}
	mgr := xrk.NewManager(x.w, cl)
	cache := &memCache{m: map[string][]byte{}}
	if x.real != nil {
		cache = x.real.cache
	}
	linter := xpkg.NewProviderLinter()
	if x.kind.Kind == "Configuration" {
		linter = xpkg.NewConfigurationLinter()
	}
	rec := revision.NewReconciler(mgr,
		revision.WithCache(cache),
		revision.WithDependencyManager(revision.NewPackageDependencyManager(cl, dag.NewMapDag, x.kind.gvk)),
		revision.WithEstablisher(revision.NewAPIEstablisher(cl, nsXP, x.conc)),
		revision.WithNewPackageRevisionFn(x.kind.nr),
		revision.WithParser(parser.New(ms, os)),
		revision.WithConfigStore(xpkg.NewImageConfigStore(cl, nsXP)),
		revision.WithLinter(linter),
		revision.WithNamespace(nsXP),
		revision.WithServiceAccount("crossplane"),
	)
	x.real = &realRec{rec: rec, cache: cache}
	for _, ri := range x.revs {
		cache.m[ri.Name] = packageYAML(x.kind.Kind, ri.Specs, ri.Content)
	}
	x.reconcile = x.reconcileReal
}

// reconcileStale reconciles a revision whose desired state the package manager has just changed,
// through a cache frozen before that change. Judged by the post-write invariants (with the
// revision's TRUE, inactive role) - an inactive revision creates nothing and controls nothing.
func (x *exec) reconcileStale(revName string, rv int64) {
	ri := x.revs[revName]
	if _, ok := x.real.cache.m[revName]; !ok {
		x.real.cache.m[revName] = packageYAML(x.kind.Kind, ri.Specs, ri.Content)
	}
	x.staleRevRV = rv
	x.mon.cur = &opCtx{Op: "reconcile-from-stale-cache", RevName: revName, RevUID: ri.UID, PkgUID: x.pkgUID, Control: false}
	x.cl.ResetCalls()
	from := x.w.LogLen()
	var err error
	perr := kit.Try(func() {
		_, err = x.real.rec.Reconcile(context.Background(), reconcile.Request{NamespacedName: types.NamespacedName{Name: revName}})
	})
	x.mon.cur = nil
	x.staleRevRV = 0
	log := x.w.Log(from)
	x.ops = append(x.ops, fmt.Sprintf("Reconcile(%s) from a cache that still shows it Active -> err=%v", revName, err))
	x.count("real_reconciles_stale_revision_cache", 1)
	if perr != nil {
		x.c.Violate("panic-in-reconcile", x.caseName, perr.Error(), x.witness(log))
		return
	}
	for i := range log {
		e := &log[i]
		if e.Actor == actorRev && e.IsWrite() && !e.DryRun && e.Changed && isPkgObjKind(e.Key) {
			x.c.Violate("deactivated-revision-wrote-from-stale-cache", x.caseName, fmt.Sprintf("%s is Inactive in the store; reconciled from a cache that still shows it Active it wrote: %s", revName, e.Short()), x.witness(log))
			break
		}
	}
	x.report(log)
}

// reconcileReal runs one real reconcile of the named revision and applies the same oracles as
// the establisher-level driver, from the reconcile's write log.
func (x *exec) reconcileReal(revName string) error {
	ri := x.revs[revName]
	if _, ok := x.real.cache.m[revName]; !ok {
		x.real.cache.m[revName] = packageYAML(x.kind.Kind, ri.Specs, ri.Content)
	}
	pr := x.loadRev(revName)
	active := pr.GetDesiredState() == v1.PackageRevisionActive
	hadRefs := pr.GetObjects()
	role := "inactive"
	if active {
		role = "active"
	}
	// Establish is reached by an active revision and by an inactive one without object references
	var refused []string
	willEstablish := active || len(hadRefs) == 0
	if willEstablish {
		refused = x.predictRefusal(ri, active)
	}
	x.mon.cur = &opCtx{Op: "reconcile", RevName: revName, RevUID: ri.UID, PkgUID: x.pkgUID, Control: active}
	x.cl.ResetCalls()
	from := x.w.LogLen()
	var res reconcile.Result
	var err error
	perr := kit.Try(func() {
		res, err = x.real.rec.Reconcile(context.Background(), reconcile.Request{NamespacedName: types.NamespacedName{Name: revName}})
	})
	x.mon.cur = nil
	log := x.w.Log(from)
	x.ops = append(x.ops, fmt.Sprintf("Reconcile(%s, %s, %d refs) -> requeue=%v err=%v", revName, role, len(hadRefs), res.Requeue, err))
	x.count("real_reconciles_"+role, 1)
	if perr != nil {
		x.c.Violate("panic-in-reconcile", x.caseName, perr.Error(), x.witness(log))
		return perr
	}
	var real []string
	for i := range log {
		e := &log[i]
		if e.Actor != actorRev || !e.IsWrite() || !isPkgObjKind(e.Key) {
			continue
		}
		if e.DryRun {
			x.count("dryrun_writes", 1)
		} else {
			x.count("real_writes", 1)
			real = append(real, e.Short())
		}
	}
	x.report(log)
	if willEstablish && x.judgeRefusal(revName, role, refused, real, err, log) {
		if err == nil {
			return errors.New("refused")
		}
		return err
	}
	if err != nil {
		x.c.Violate("harness:unexpected-reconcile-error", x.caseName, fmt.Sprintf("%s reconcile of %s failed without a predicted reason: %v", role, revName, err), x.witness(log))
		return err
	}
	if res.Requeue {
		return errors.New("requeue")
	}
	after := x.loadRev(revName)
	if !active {
		x.checkPostRelease(ri, hadRefs, log)
		// whatever the revision's status lists: once an inactive revision's reconcile has completed it
		// controls none of the objects it ships (deactivation gives up control)
		for _, s := range ri.Specs {
			if o := x.w.GetObj(s.key()); o != nil && controllerUID(o) == ri.UID {
				x.c.Violate("inactive-revision-still-controller-after-its-reconcile:"+s.Kind, x.caseName,
					fmt.Sprintf("the reconcile of the inactive revision %s completed without error, yet it still controls %s (its status lists %d of its %d objects)", revName, s.key(), len(hadRefs), len(ri.Specs)), x.witness(log))
				break
			}
		}
	}
	if willEstablish {
		x.count("establish_ok_"+role, 1)
		x.checkPostEstablish(ri, active, log)
		if len(after.GetObjects()) != len(ri.Specs) {
			x.c.Violate("revision-object-refs-incomplete", x.caseName, fmt.Sprintf("%s has %d object references for %d manifests", revName, len(after.GetObjects()), len(ri.Specs)), x.witness(log))
		}
	}
	return nil
}
