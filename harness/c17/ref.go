//go:build verif

package main

import (
	"fmt"
	"sort"
)

// refGraph is the independent reference digraph. An edge u->v means "u depends on v".
// Nodes that are only ever mentioned as an edge target are "absent" (not in the node list /
// not in the lock): the code under test calls them implied nodes.
type refGraph struct {
	present map[string]bool
	out     map[string]map[string]bool
	all     map[string]bool
}

func newRef() *refGraph {
	return &refGraph{present: map[string]bool{}, out: map[string]map[string]bool{}, all: map[string]bool{}}
}

func (g *refGraph) addNode(id string) {
	g.present[id] = true
	g.all[id] = true
}

func (g *refGraph) addEdge(u, v string) {
	g.all[u] = true
	g.all[v] = true
	if g.out[u] == nil {
		g.out[u] = map[string]bool{}
	}
	g.out[u][v] = true
}

func sortedKeys(m map[string]bool) []string {
	ks := make([]string, 0, len(m))
	for k, v := range m {
		if v {
			ks = append(ks, k)
		}
	}
	sort.Strings(ks)
	return ks
}

func (g *refGraph) nodes() []string { return sortedKeys(g.all) }

func (g *refGraph) succ(u string) []string { return sortedKeys(g.out[u]) }

// absent lists the nodes that are referenced but not present.
func (g *refGraph) absent() []string {
	var r []string
	for _, n := range g.nodes() {
		if !g.present[n] {
			r = append(r, n)
		}
	}
	return r
}

// cyclic decides by peeling sinks (Kahn on out-degree): whatever cannot be peeled lies on or
// upstream of a cycle. Self-loops are cycles.
func (g *refGraph) cyclic() bool {
	left := map[string]bool{}
	for _, n := range g.nodes() {
		left[n] = true
	}
	for {
		peeled := false
		for _, n := range sortedKeys(left) {
			sink := true
			for _, s := range g.succ(n) {
				if left[s] {
					sink = false
					break
				}
			}
			if sink {
				delete(left, n)
				peeled = true
			}
		}
		if !peeled {
			break
		}
	}
	return len(left) > 0
}

func (g *refGraph) selfLoop() bool {
	for u, m := range g.out {
		if m[u] {
			return true
		}
	}
	return false
}

// reach returns every node reachable from id over at least one edge (breadth first).
func (g *refGraph) reach(id string) map[string]bool {
	seen := map[string]bool{}
	queue := []string{id}
	for len(queue) > 0 {
		u := queue[0]
		queue = queue[1:]
		for _, v := range g.succ(u) {
			if !seen[v] {
				seen[v] = true
				queue = append(queue, v)
			}
		}
	}
	return seen
}

// diamond reports whether some node is reachable from another one over two different first
// hops (two distinct paths to the same dependency).
func (g *refGraph) diamond() bool {
	for _, u := range g.nodes() {
		ss := g.succ(u)
		for i := 0; i < len(ss); i++ {
			if ss[i] == u {
				continue
			}
			ri := g.reach(ss[i])
			ri[ss[i]] = true
			for j := i + 1; j < len(ss); j++ {
				if ss[j] == u {
					continue
				}
				rj := g.reach(ss[j])
				rj[ss[j]] = true
				for v := range ri {
					if v != u && rj[v] {
						return true
					}
				}
			}
		}
	}
	return false
}

// orderProblem checks the contract of a topological sort result: a permutation of all nodes
// in which every dependency comes before each of its dependents. Empty string = fine.
func (g *refGraph) orderProblem(order []string) string {
	pos := map[string]int{}
	for i, n := range order {
		if _, dup := pos[n]; dup {
			return fmt.Sprintf("node %q listed twice", n)
		}
		if !g.all[n] {
			return fmt.Sprintf("unknown node %q in result", n)
		}
		pos[n] = i
	}
	for _, n := range g.nodes() {
		if _, ok := pos[n]; !ok {
			return fmt.Sprintf("node %q missing from result", n)
		}
	}
	for _, u := range g.nodes() {
		for _, v := range g.succ(u) {
			if pos[v] >= pos[u] {
				return fmt.Sprintf("dependency %q sorted at %d, not before its dependent %q at %d", v, pos[v], u, pos[u])
			}
		}
	}
	return ""
}

func (g *refGraph) classes() (cyc, dia, imp, self bool) {
	return g.cyclic(), g.diamond(), len(g.absent()) > 0, g.selfLoop()
}

func sameSet(a []string, b map[string]bool) bool {
	as := map[string]bool{}
	for _, x := range a {
		as[x] = true
	}
	if len(as) != len(sortedKeys(b)) {
		return false
	}
	for x := range as {
		if !b[x] {
			return false
		}
	}
	return true
}
