//go:build verif

package main

import (
	"context"
	"fmt"
	"math/rand/v2"
	"sort"
	"strings"

	"github.com/Masterminds/semver"
	"github.com/google/go-containerregistry/pkg/name"
	conregv1 "github.com/google/go-containerregistry/pkg/v1"
	metav1 "k8s.io/apimachinery/pkg/apis/meta/v1"
	"k8s.io/apimachinery/pkg/apis/meta/v1/unstructured"
	"k8s.io/apimachinery/pkg/runtime"
	"k8s.io/apimachinery/pkg/runtime/schema"
	"k8s.io/apimachinery/pkg/types"
	"k8s.io/utils/ptr"
	"sigs.k8s.io/controller-runtime/pkg/reconcile"

	"github.com/crossplane/crossplane-runtime/pkg/feature"
	"github.com/crossplane/crossplane-runtime/pkg/resource/fake"

	pkgapis "github.com/crossplane/crossplane/apis/pkg"
	"github.com/crossplane/crossplane/apis/pkg/v1beta1"
	"github.com/crossplane/crossplane/internal/controller/pkg/resolver"
	"github.com/crossplane/crossplane/internal/dag"
	"github.com/crossplane/crossplane/internal/features"
	"github.com/crossplane/crossplane/verifh/kit"
	"github.com/crossplane/crossplane/verifh/sim"
)

const pkgGroup = "pkg.crossplane.io"

var pkgScheme = func() *runtime.Scheme {
	s := runtime.NewScheme()
	if err := pkgapis.AddToScheme(s); err != nil {
		panic(err)
	}
	return s
}()

// the pool of package sources; the type of a package is a function of its source
var srcPool = []string{
	"xpkg.io/acme/provider-a", "xpkg.io/acme/provider-b", "acme/config-c",
	"xpkg.io/acme/function-d", "registry.example.org:5000/team/pkg-e", "acme/provider-f",
}

func typeOf(src string) v1beta1.PackageType {
	switch {
	case strings.Contains(src, "config"):
		return v1beta1.ConfigurationPackageType
	case strings.Contains(src, "function"):
		return v1beta1.FunctionPackageType
	}
	return v1beta1.ProviderPackageType
}

func objName(src string) string {
	s := src
	if i := strings.Index(s, "/"); i >= 0 && strings.ContainsAny(s[:i], ".:") {
		s = s[i+1:]
	}
	return strings.NewReplacer("/", "-", ".", "-", ":", "-").Replace(s)
}

func mkDep(r *rand.Rand, src, cons string) v1beta1.Dependency {
	d := v1beta1.Dependency{Package: src, Constraints: cons}
	if r.IntN(2) == 0 {
		d.Type = ptr.To(typeOf(src))
	} else {
		d.APIVersion = ptr.To(pkgGroup + "/v1")
		d.Kind = ptr.To(string(typeOf(src)))
	}
	return d
}

// fakeFetcher serves the generated tag lists.
type fakeFetcher struct {
	tags  map[string][]string
	calls int
}

func (f *fakeFetcher) Fetch(context.Context, name.Reference, ...string) (conregv1.Image, error) {
	return nil, fmt.Errorf("fetch not available in this harness")
}

func (f *fakeFetcher) Head(context.Context, name.Reference, ...string) (*conregv1.Descriptor, error) {
	return nil, fmt.Errorf("head not available in this harness")
}

func (f *fakeFetcher) Tags(_ context.Context, ref name.Reference, _ ...string) ([]string, error) {
	f.calls++
	return append([]string(nil), f.tags[ref.String()]...), nil
}

type nopConfig struct{}

func (nopConfig) PullSecretFor(context.Context, string) (string, string, error) { return "", "", nil }
func (nopConfig) ImageVerificationConfigFor(context.Context, string) (string, *v1beta1.ImageVerification, error) {
	return "", nil, nil
}

type pobj struct{ src, ver, typ string }

// rcase is one generated resolver scenario.
type rcase struct {
	kind    string
	mode    int // 0 upgrades off (MapDag); 1 upgrades on; 2 upgrades and downgrades on
	lock    []v1beta1.LockPackage
	objs    []pobj
	tags    map[string][]string
	catalog map[string][]v1beta1.Dependency // dependencies a not-yet-installed package will declare
}

var modeNames = []string{"upgrades-off", "upgrades-on", "upgrades+downgrades"}

func splitPackage(s string) (src, ver string) {
	if i := strings.Index(s, "@"); i >= 0 {
		return s[:i], s[i+1:]
	}
	slash := strings.LastIndex(s, "/")
	if i := strings.Index(s[slash+1:], ":"); i >= 0 {
		return s[:slash+1+i], s[slash+1+i+1:]
	}
	return s, ""
}

func joinPackage(src, ver string) string {
	switch {
	case ver == "":
		return src
	case strings.HasPrefix(ver, "sha256:"):
		return src + "@" + ver
	}
	return src + ":" + ver
}

func plainVersion(r *rand.Rand) string {
	return fmt.Sprintf("v%d.%d.%d", r.IntN(3), r.IntN(4), r.IntN(4))
}

func genResolverCase(r *rand.Rand) *rcase {
	rc := &rcase{tags: map[string][]string{}, catalog: map[string][]v1beta1.Dependency{}}
	rc.mode = r.IntN(3)
	pool := append([]string(nil), srcPool...)
	r.Shuffle(len(pool), func(i, j int) { pool[i], pool[j] = pool[j], pool[i] })
	for _, s := range pool {
		rc.tags[s] = genTags(r)
	}
	addPresent := func(src, ver string) int {
		rc.lock = append(rc.lock, v1beta1.LockPackage{Name: objName(src) + "-rev1", Source: src, Version: ver, Type: ptr.To(typeOf(src))})
		rc.objs = append(rc.objs, pobj{src, ver, string(typeOf(src))})
		return len(rc.lock) - 1
	}
	addEdge := func(i int, d v1beta1.Dependency) {
		for _, e := range rc.lock[i].Dependencies {
			if e.Package == d.Package {
				return
			}
		}
		rc.lock[i].Dependencies = append(rc.lock[i].Dependencies, d)
	}
	const always = ">=0.0.0"

	switch x := r.IntN(100); {
	case x < 40:
		rc.kind = "install"
	case x < 55:
		rc.kind = "cycle"
	case x < 80:
		rc.kind = "upgrade"
	case x < 93:
		rc.kind = "installed-not-in-lock"
	default:
		rc.kind = "noop"
	}

	switch rc.kind {
	case "install", "noop", "cycle":
		np := 1 + r.IntN(3)
		if rc.kind == "cycle" {
			np = 1 + r.IntN(4)
		}
		for i := 0; i < np; i++ {
			addPresent(pool[i], plainVersion(r))
		}
		for i := 0; i < np; i++ {
			for j := i + 1; j < np; j++ {
				if r.IntN(100) < 35 {
					addEdge(i, mkDep(r, pool[j], always))
				}
			}
		}
		if rc.kind == "cycle" {
			l := 1 + r.IntN(np)
			for i := 0; i < l; i++ { // ring over the first l packages (l=1: a self-loop)
				addEdge(i, mkDep(r, pool[(i+1)%l], always))
			}
			if l > 1 && r.IntN(3) == 0 { // make sure the ring is closed even if the forward edge pre-existed
				addEdge(l-1, mkDep(r, pool[0], always))
			}
		}
		if rc.kind != "noop" {
			nm := 1 + r.IntN(2)
			if np+nm > len(pool) {
				nm = len(pool) - np
			}
			for m := 0; m < nm; m++ {
				src := pool[np+m]
				cons, _ := genConstraint(r, rc.tags[src])
				if rc.kind == "cycle" { // tempting: something installable next to the cycle
					var vt []string
					for _, t := range rc.tags[src] {
						if validTag(t) {
							vt = append(vt, t)
						}
					}
					if len(vt) == 0 {
						rc.tags[src] = append(rc.tags[src], "v1.0.0")
					}
					cons = []string{">=0.0.0-0", genDigest(r), "*"}[r.IntN(3)]
				}
				p1 := r.IntN(np)
				addEdge(p1, mkDep(r, src, cons))
				if np > 1 && r.IntN(100) < 35 {
					p2 := (p1 + 1 + r.IntN(np-1)) % np
					c2 := cons
					if r.IntN(2) == 0 {
						c2, _ = genConstraint(r, rc.tags[src])
					}
					addEdge(p2, mkDep(r, src, c2))
				}
				// what the package will declare once its revision adds itself to the lock
				switch y := r.IntN(100); {
				case y < 30 && np+nm < len(pool):
					nx := pool[np+nm+r.IntN(len(pool)-np-nm)]
					cn, _ := genConstraint(r, rc.tags[nx])
					rc.catalog[src] = []v1beta1.Dependency{mkDep(r, nx, cn)}
				case y < 45:
					rc.catalog[src] = []v1beta1.Dependency{mkDep(r, pool[p1], always)} // closes a cycle later
				case y < 60:
					rc.catalog[src] = []v1beta1.Dependency{mkDep(r, pool[r.IntN(np)], always)}
				}
			}
		}
	case "upgrade", "installed-not-in-lock":
		d := pool[0]
		np := 1 + r.IntN(3)
		// make the tag list of d rich enough for upgrades and downgrades
		for i := 0; i < 3; i++ {
			rc.tags[d] = append(rc.tags[d], plainVersion(r))
		}
		r.Shuffle(len(rc.tags[d]), func(i, j int) { rc.tags[d][i], rc.tags[d][j] = rc.tags[d][j], rc.tags[d][i] })
		seen := map[string]bool{}
		var tl []string
		for _, t := range rc.tags[d] {
			if !seen[t] {
				seen[t] = true
				tl = append(tl, t)
			}
		}
		rc.tags[d] = tl
		pickVer := func() string {
			if r.IntN(100) < 70 {
				for try := 0; try < 8; try++ {
					t := rc.tags[d][r.IntN(len(rc.tags[d]))]
					if validTag(t) {
						return t
					}
				}
			}
			return plainVersion(r)
		}
		for i := 0; i < np; i++ {
			addPresent(pool[1+i], plainVersion(r))
		}
		lockVer := pickVer()
		objVer := lockVer
		switch y := r.IntN(100); {
		case y < 30:
			objVer = pickVer() // the lock lags behind the installed package
		case y < 34:
			objVer = "" // untagged source
		case y < 38:
			objVer = genDigest(r)
			lockVer = objVer
		}
		if rc.kind == "upgrade" {
			rc.lock = append(rc.lock, v1beta1.LockPackage{Name: objName(d) + "-rev1", Source: d, Version: lockVer, Type: ptr.To(typeOf(d))})
		}
		rc.objs = append(rc.objs, pobj{d, objVer, string(typeOf(d))})
		// parents' constraints: related to each other so that a common solution often exists
		shared := ""
		if r.IntN(100) < 12 {
			shared = genDigest(r)
		}
		for i := 0; i < np; i++ {
			var cons string
			switch y := r.IntN(100); {
			case shared != "" && y < 80:
				cons = shared
			case y < 45:
				cons = []string{">=", ">", "<", "<=", "^", "~"}[r.IntN(6)] + pickVer()
			case y < 60:
				cons = ">=" + pickVer() + ", <" + fmt.Sprintf("v%d.0.0", 1+r.IntN(3))
			default:
				cons, _ = genConstraint(r, rc.tags[d])
			}
			addEdge(i, mkDep(r, d, cons))
		}
		if r.IntN(100) < 10 && len(pool) > np+1 { // a second, unrelated missing dependency
			src := pool[np+1]
			cn, _ := genConstraint(r, rc.tags[src])
			addEdge(r.IntN(np), mkDep(r, src, cn))
		}
	}
	r.Shuffle(len(rc.lock), func(i, j int) { rc.lock[i], rc.lock[j] = rc.lock[j], rc.lock[i] })
	return rc
}

func (rc *rcase) describe(lock []v1beta1.LockPackage) map[string]any {
	var lp []any
	for _, p := range lock {
		var ds []string
		for _, d := range p.Dependencies {
			ds = append(ds, d.Package+" ("+d.Constraints+")")
		}
		lp = append(lp, map[string]any{"source": p.Source, "version": p.Version, "dependsOn": ds})
	}
	var objs []string
	for _, o := range rc.objs {
		objs = append(objs, o.typ+" "+joinPackage(o.src, o.ver))
	}
	tags := map[string][]string{}
	for _, p := range lock {
		for _, d := range p.Dependencies {
			tags[d.Package] = rc.tags[d.Package]
		}
	}
	return map[string]any{"part": "resolver", "kind": rc.kind, "mode": modeNames[rc.mode], "lock": lp, "installedAtStart": objs, "tags": tags}
}

func lockRef(lock []v1beta1.LockPackage) *refGraph {
	g := newRef()
	for _, p := range lock {
		g.addNode(p.Source)
	}
	for _, p := range lock {
		for _, d := range p.Dependencies {
			g.addEdge(p.Source, d.Package)
		}
	}
	return g
}

func snapshotPkgs(w *sim.World) map[string]pobj {
	out := map[string]pobj{}
	for _, kind := range []string{"Provider", "Configuration", "Function"} {
		for _, o := range w.ListObjs(schema.GroupKind{Group: pkgGroup, Kind: kind}) {
			src, ver := splitPackage(sim.Str(o, "spec", "package"))
			out[kind+"/"+sim.Str(o, "metadata", "name")] = pobj{src, ver, kind}
		}
	}
	return out
}

func runResolverCase(c *kit.Ctx, i int) {
	cname := fmt.Sprintf("res/%d", i)
	if !c.Want(cname) {
		return
	}
	r := c.Rng("res", i)
	rc := genResolverCase(r)

	w := sim.NewWorld(pkgScheme, uint64(i)+1)
	w.KeepBodies = false
	user := w.Client("user")
	ctx := context.Background()
	lk := &v1beta1.Lock{ObjectMeta: metav1.ObjectMeta{Name: "lock"}, Packages: rc.lock}
	if err := user.Create(ctx, lk); err != nil {
		c.Inconclusive("cannot seed lock: " + err.Error())
		return
	}
	for _, o := range rc.objs {
		w.MustSeed("user", map[string]any{
			"apiVersion": pkgGroup + "/v1", "kind": o.typ,
			"metadata": map[string]any{"name": objName(o.src)},
			"spec":     map[string]any{"package": joinPackage(o.src, o.ver)},
		})
	}

	ff := &fakeFetcher{tags: rc.tags}
	flags := &feature.Flags{}
	opts := []resolver.ReconcilerOption{
		resolver.WithFetcher(ff), resolver.WithConfigStore(nopConfig{}),
		resolver.WithDefaultRegistry("xpkg.upbound.io"), resolver.WithFeatures(flags),
	}
	if rc.mode > 0 {
		flags.Enable(features.EnableAlphaDependencyVersionUpgrades)
		opts = append(opts, resolver.WithNewDagFn(dag.NewUpgradingMapDag))
		if rc.mode == 2 {
			opts = append(opts, resolver.WithDowngradesEnabled())
		}
	}
	rec := resolver.NewReconciler(&fake.Manager{Client: w.Client("resolver")}, opts...)

	// fingerprint and non-triviality of the whole scenario
	g0 := lockRef(rc.lock)
	cyc0, _, _, _ := g0.classes()
	jb := false
	for _, p := range rc.lock {
		for _, d := range p.Dependencies {
			if junkBetween(rc.tags[d.Package]) {
				jb = true
			}
		}
	}
	c.Eval("res|"+kit.JSON(rc.describe(rc.lock)), jb || cyc0)
	c.Count("res_cases_"+rc.kind, 1)
	c.Count("res_cases_mode_"+modeNames[rc.mode], 1)
	if jb {
		c.Count("res_cases_tags_junk_between_valid", 1)
	}
	if jb {
		samples.offer("res", i, func() any { w := rc.describe(rc.lock); w["case"] = cname; return w })
	}

	for step := 0; step < 4; step++ {
		cur := &v1beta1.Lock{}
		if err := user.Get(ctx, types.NamespacedName{Name: "lock"}, cur); err != nil {
			c.Inconclusive("cannot read lock: " + err.Error())
			return
		}
		before := snapshotPkgs(w)
		var rerr error
		perr := kit.Try(func() {
			_, rerr = rec.Reconcile(ctx, reconcile.Request{NamespacedName: types.NamespacedName{Name: "lock"}})
		})
		after := snapshotPkgs(w)
		c.Count("res_reconciles", 1)
		if perr != nil {
			c.Count("res_reconcile_panics", 1)
			if strings.Contains(perr.Error(), "Invalid Semantic Version") {
				c.Count("res_reconcile_panics_mustparse_installed_version", 1)
			}
		} else if rerr != nil {
			c.Count("res_reconcile_errors", 1)
		}
		changed := rc.judge(c, cname, step, cur.Packages, before, after, rerr, perr)
		if len(changed) == 0 {
			break
		}
		// the package manager's part: the new/updated package's revision (re)writes its lock entry
		if err := user.Get(ctx, types.NamespacedName{Name: "lock"}, cur); err != nil {
			c.Inconclusive("cannot re-read lock: " + err.Error())
			return
		}
		// sometimes a package the resolver has just created never registers (the user deletes it
		// again, or its revision never gets to the lock) and meanwhile the parents' constraints on
		// it are edited: the next reconcile of the same long-lived resolver picks by the NEW
		// constraints
		if step < 3 && r.IntN(3) == 0 {
			edited := false
			for _, p := range changed {
				inLock := false
				for k := range cur.Packages {
					inLock = inLock || cur.Packages[k].Source == p.src
				}
				if inLock {
					continue
				}
				po := &unstructured.Unstructured{Object: map[string]any{"apiVersion": pkgGroup + "/v1", "kind": p.typ, "metadata": map[string]any{"name": objName(p.src)}}}
				_ = user.Delete(ctx, po)
				for k := range cur.Packages {
					for d := range cur.Packages[k].Dependencies {
						if cur.Packages[k].Dependencies[d].Package == p.src {
							cons, _ := genConstraint(r, rc.tags[p.src])
							cur.Packages[k].Dependencies[d].Constraints = cons
							edited = true
						}
					}
				}
			}
			if edited {
				if err := user.Update(ctx, cur); err != nil {
					c.Inconclusive("cannot update lock: " + err.Error())
					return
				}
				c.Count("res_history_steps_unregistered_and_constraint_edited", 1)
				continue
			}
		}
		for _, p := range changed {
			found := false
			for k := range cur.Packages {
				if cur.Packages[k].Source == p.src {
					cur.Packages[k].Version = p.ver
					found = true
				}
			}
			if !found {
				cur.Packages = append(cur.Packages, v1beta1.LockPackage{
					Name: objName(p.src) + "-rev1", Source: p.src, Version: p.ver, Type: ptr.To(typeOf(p.src)),
					Dependencies: rc.catalog[p.src],
				})
			}
		}
		if err := user.Update(ctx, cur); err != nil {
			c.Inconclusive("cannot update lock: " + err.Error())
			return
		}
		c.Count("res_history_steps", 1)
	}
}

func parentsOf(lock []v1beta1.LockPackage, src string) []string {
	var ps []string
	for _, p := range lock {
		for _, d := range p.Dependencies {
			if d.Package == src {
				ps = append(ps, d.Constraints)
			}
		}
	}
	return ps
}

func cmpVer(a, b string) (int, bool) {
	va, e1 := semver.NewVersion(a)
	vb, e2 := semver.NewVersion(b)
	if e1 != nil || e2 != nil {
		return 0, false
	}
	return va.Compare(vb), true
}

// judge compares what one reconcile did to the package objects with the reference selection.
// It returns the created/updated packages.
func (rc *rcase) judge(c *kit.Ctx, cname string, step int, lock []v1beta1.LockPackage, before, after map[string]pobj, rerr, perr error) []pobj {
	g := lockRef(lock)
	inLock := map[string]string{}
	for _, p := range lock {
		inLock[p.Source] = p.Version
	}
	objBySrc := map[string]*pobj{}
	for _, k := range sortedObjKeys(before) {
		o := before[k]
		objBySrc[o.src] = &o
	}
	wit := func(extra map[string]any) map[string]any {
		w := rc.describe(lock)
		w["step"] = step
		w["reconcileError"] = fmt.Sprint(rerr)
		if perr != nil {
			w["reconcilePanic"] = firstLine(perr.Error())
		}
		for k, v := range extra {
			w[k] = v
		}
		return w
	}

	var created, updated, deleted []string
	for _, k := range sortedObjKeys(after) {
		b, ok := before[k]
		switch {
		case !ok:
			created = append(created, k)
		case b != after[k]:
			updated = append(updated, k)
		}
	}
	for _, k := range sortedObjKeys(before) {
		if _, ok := after[k]; !ok {
			deleted = append(deleted, k)
		}
	}
	c.Count("res_packages_created", int64(len(created)))
	c.Count("res_packages_updated", int64(len(updated)))
	c.Count("res_packages_deleted", int64(len(deleted)))

	var changed []pobj
	for _, k := range created {
		changed = append(changed, after[k])
	}
	for _, k := range updated {
		changed = append(changed, after[k])
	}

	if g.cyclic() {
		c.Count("res_reconciles_on_cyclic_lock", 1)
		if len(created)+len(updated) > 0 {
			violate(c, "resolver-cycle-still-installs", cname, fmt.Sprintf("lock has a dependency cycle but the reconcile created %v / updated %v", created, updated), wit(nil))
		}
		if rerr == nil && perr == nil {
			violate(c, "resolver-cycle-not-reported", cname, "lock has a dependency cycle but the reconcile returned no error", wit(nil))
		} else {
			c.Count("res_decisions_cycle_refused", 1)
		}
		return nil // a refused lock: the history ends here
	}

	for _, k := range created {
		p := after[k]
		ps := parentsOf(lock, p.src)
		tags := rc.tags[p.src]
		if len(ps) == 0 {
			violate(c, "resolver-created-undeclared-package", cname, fmt.Sprintf("created %s which no lock package depends on", joinPackage(p.src, p.ver)), wit(nil))
			continue
		}
		if _, in := inLock[p.src]; in {
			c.Count("res_created_for_dependency_already_in_lock", 1)
		}
		ok, anySat, anyDigest := false, false, false
		accAll := map[string][]string{}
		for _, cn := range ps {
			acc := installSet(cn, tags)
			accAll[cn] = setList(acc)
			if acc[p.ver] {
				ok = true
			}
			if satisfies(p.ver, cn) {
				anySat = true
			}
			if isDigest(cn) {
				anyDigest = true
			}
		}
		if ok {
			if isDigest(p.ver) {
				c.Count("res_decisions_install_pinned_digest", 1)
			} else {
				c.Count("res_decisions_install_highest_satisfying_tag", 1)
				if hasJunk(tags) {
					c.Count("res_decisions_install_from_list_with_junk", 1)
				}
			}
			continue
		}
		e := map[string]any{"created": joinPackage(p.src, p.ver), "acceptablePerConstraint": accAll}
		switch {
		case !anySat && anyDigest && len(ps) == 1:
			violate(c, "resolver-install-digest-mismatch", cname, fmt.Sprintf("dependency pinned to %s but %s was installed", ps[0], joinPackage(p.src, p.ver)), wit(e))
		case !anySat:
			violate(c, "resolver-install-violates-constraint", cname, fmt.Sprintf("installed %s which satisfies none of the declared constraints %q", joinPackage(p.src, p.ver), ps), wit(e))
		default:
			violate(c, "resolver-install-not-highest", cname, fmt.Sprintf("installed %s but a higher satisfying tag exists (constraints %q, acceptable %v)", joinPackage(p.src, p.ver), ps, accAll), wit(e))
		}
	}

	for _, k := range updated {
		p, old := after[k], before[k]
		if p.src != old.src {
			violate(c, "resolver-update-changed-source", cname, fmt.Sprintf("package %s source changed from %s to %s", k, old.src, p.src), wit(nil))
			continue
		}
		if rc.mode == 0 {
			violate(c, "resolver-update-with-upgrades-disabled", cname, fmt.Sprintf("package %s moved from %q to %q although dependency upgrades are disabled", k, old.ver, p.ver), wit(nil))
			continue
		}
		ps := parentsOf(lock, p.src)
		acc, curOK := upgradeSet(ps, rc.tags[p.src], old.ver, rc.mode == 2)
		e := map[string]any{"from": old.ver, "to": p.ver, "parentConstraints": ps, "acceptable": setList(acc)}
		if acc[p.ver] {
			switch cmp, ok := cmpVer(p.ver, old.ver); {
			case isDigest(p.ver):
				c.Count("res_decisions_update_to_pinned_digest", 1)
			case !ok:
				c.Count("res_decisions_update_from_non_semver", 1)
			case cmp > 0:
				c.Count("res_decisions_upgrade_lowest_not_older", 1)
			case cmp < 0:
				c.Count("res_decisions_downgrade_highest_older", 1)
			default:
				c.Count("res_decisions_update_same_precedence", 1)
			}
			continue
		}
		allSat := len(ps) > 0
		for _, cn := range ps {
			if !satisfies(p.ver, cn) {
				allSat = false
			}
		}
		cmp, cok := cmpVer(p.ver, old.ver)
		switch {
		case !allSat:
			violate(c, "resolver-upgrade-violates-parent-constraint", cname, fmt.Sprintf("%s moved from %q to %q which does not satisfy every parent constraint %q", p.src, old.ver, p.ver, ps), wit(e))
		case !curOK || !cok:
			// the installed version was not a semantic version: only safety is judged
			c.Count("res_decisions_update_from_non_semver", 1)
		case cmp < 0 && rc.mode != 2:
			violate(c, "resolver-downgrade-without-permission", cname, fmt.Sprintf("%s moved down from %q to %q although downgrades are not allowed", p.src, old.ver, p.ver), wit(e))
		case cmp < 0:
			violate(c, "resolver-downgrade-not-highest-older", cname, fmt.Sprintf("%s moved down from %q to %q; reference target %v", p.src, old.ver, p.ver, setList(acc)), wit(e))
		default:
			violate(c, "resolver-upgrade-not-lowest-not-older", cname, fmt.Sprintf("%s moved from %q to %q; the lowest not-older version satisfying %q is %v", p.src, old.ver, p.ver, ps, setList(acc)), wit(e))
		}
	}

	// nothing changed and success was reported: fine unless every open problem had a definite answer
	if rerr == nil && perr == nil && len(created)+len(updated) == 0 {
		var kinds []string
		definite, keeps := true, false
		for _, s := range g.nodes() {
			ps := parentsOf(lock, s)
			if len(ps) == 0 {
				continue
			}
			ver, in := inLock[s]
			obj := objBySrc[s]
			unsat := false
			for _, cn := range ps {
				if ver != cn && !satisfies(ver, cn) {
					unsat = true
				}
			}
			switch {
			case !in && obj == nil:
				kinds = append(kinds, "install")
				for _, cn := range ps {
					if len(installSet(cn, rc.tags[s])) == 0 {
						definite = false
					}
				}
			case obj == nil:
				definite = false
			case !in && rc.mode == 0:
				definite = false // create meets AlreadyExists: the property says nothing
			case rc.mode > 0 && (!in || unsat):
				kinds = append(kinds, "update")
				acc, curOK := upgradeSet(ps, rc.tags[s], obj.ver, rc.mode == 2)
				if !curOK || len(acc) == 0 || acc[obj.ver] {
					definite = false
				}
				for t := range acc { // a tie with the installed version is also "no move needed"
					if cmp, ok := cmpVer(t, obj.ver); ok && cmp == 0 {
						definite = false
						keeps = true
					}
				}
			}
		}
		if len(kinds) > 0 && definite {
			key := "resolver-nothing-done-despite-resolvable-problems"
			if len(uniq(kinds)) == 1 && kinds[0] == "install" {
				key = "resolver-install-missing-not-created"
			} else if len(uniq(kinds)) == 1 {
				key = "resolver-upgrade-not-applied"
			}
			violate(c, key, cname, fmt.Sprintf("reconcile reported success and changed nothing, yet every open dependency problem %v has a qualifying version", kinds), wit(nil))
		}
		if len(kinds) == 0 {
			c.Count("res_decisions_nothing_to_do", 1)
		} else if keeps {
			c.Count("res_decisions_update_keeps_installed_version", 1)
		} else if !definite {
			c.Count("res_decisions_nothing_qualifies_or_undefined", 1)
		}
	} else if len(created)+len(updated) == 0 {
		c.Count("res_decisions_refused_with_error", 1)
	}
	return changed
}

func sortedObjKeys(m map[string]pobj) []string {
	ks := make([]string, 0, len(m))
	for k := range m {
		ks = append(ks, k)
	}
	sort.Strings(ks)
	return ks
}

// mirrorCase: a dependency on xpkg.io/acme/provider-a is missing while a DIFFERENT package with
// the same repository path on another registry (a mirror, installed by hand under its own name)
// is installed and in the Lock. In every mode the missing dependency is installed at the
// highest tag satisfying the constraint, and the mirrored package is left alone.
func mirrorCase(c *kit.Ctx, i int) {
	cname := fmt.Sprintf("res-mirror/%d", i)
	if !c.Want(cname) {
		return
	}
	mode := i % 3
	const orig, mirror, parent = "xpkg.io/acme/provider-a", "mirror.example.net/acme/provider-a", "xpkg.io/acme/config-parent"
	tags := map[string][]string{orig: {"v0.9.0", "v1.0.0", "v1.2.0", "v1.4.1", "v2.0.0", "edge"}, mirror: {"v1.0.0", "v1.1.0"}}
	cons := []string{">=v1.0.0, <2.0.0", "<=v1.2.0", ">=v0.9.0"}[(i/3)%3]
	want := map[string]string{">=v1.0.0, <2.0.0": "v1.4.1", "<=v1.2.0": "v1.2.0", ">=v0.9.0": "v2.0.0"}[cons]
	mirrorVer := []string{"v1.0.0", "v1.1.0"}[(i/9)%2]
	w := sim.NewWorld(pkgScheme, uint64(c.Seed)*277+uint64(i))
	user := w.Client("user")
	ctx := context.Background()
	lk := &v1beta1.Lock{ObjectMeta: metav1.ObjectMeta{Name: "lock"}, Packages: []v1beta1.LockPackage{
		{Name: "config-parent-rev1", Source: parent, Version: "v1.0.0", Type: ptr.To(v1beta1.ConfigurationPackageType), Dependencies: []v1beta1.Dependency{{Package: orig, Constraints: cons, Type: ptr.To(v1beta1.ProviderPackageType)}}},
		{Name: "mirror-provider-a-rev1", Source: mirror, Version: mirrorVer, Type: ptr.To(v1beta1.ProviderPackageType)},
	}}
	if err := user.Create(ctx, lk); err != nil {
		c.Inconclusive("cannot seed lock: " + err.Error())
		return
	}
	w.MustSeed("user", map[string]any{"apiVersion": pkgGroup + "/v1", "kind": "Configuration", "metadata": map[string]any{"name": "config-parent"}, "spec": map[string]any{"package": parent + ":v1.0.0"}})
	w.MustSeed("user", map[string]any{"apiVersion": pkgGroup + "/v1", "kind": "Provider", "metadata": map[string]any{"name": "mirror-provider-a"}, "spec": map[string]any{"package": mirror + ":" + mirrorVer}})
	flags := &feature.Flags{}
	opts := []resolver.ReconcilerOption{resolver.WithFetcher(&fakeFetcher{tags: tags}), resolver.WithConfigStore(nopConfig{}), resolver.WithDefaultRegistry("xpkg.upbound.io"), resolver.WithFeatures(flags)}
	if mode > 0 {
		flags.Enable(features.EnableAlphaDependencyVersionUpgrades)
		opts = append(opts, resolver.WithNewDagFn(dag.NewUpgradingMapDag))
		if mode == 2 {
			opts = append(opts, resolver.WithDowngradesEnabled())
		}
	}
	rec := resolver.NewReconciler(&fake.Manager{Client: w.Client("resolver")}, opts...)
	var rerr error
	perr := kit.Try(func() {
		_, rerr = rec.Reconcile(ctx, reconcile.Request{NamespacedName: types.NamespacedName{Name: "lock"}})
	})
	wit := map[string]any{"mode": modeNames[mode], "constraint": cons, "tags": tags, "reconcileError": fmt.Sprint(rerr), "packages": fmt.Sprint(snapshotPkgs(w))}
	if perr != nil {
		violate(c, "resolver-panic", cname, firstLine(perr.Error()), wit)
		return
	}
	got := ""
	for _, o := range snapshotPkgs(w) {
		switch o.src {
		case orig:
			got = o.ver
		case mirror:
			if o.ver != mirrorVer {
				violate(c, "resolver-rewrote-unrelated-package-with-same-repository-path", cname, fmt.Sprintf("the package from %s moved from %s to %s although the missing dependency is %s", mirror, mirrorVer, o.ver, orig), wit)
			}
		}
	}
	if got != want {
		violate(c, "resolver-missing-dependency-not-installed-at-highest-satisfying-tag", cname, fmt.Sprintf("dependency %s (%s) is missing; installed version %q, want %q (a package with the same repository path from another registry is installed)", orig, cons, got, want), wit)
	}
	c.Eval(cname, true)
	c.Count("res_mirror_cases", 1)
}
