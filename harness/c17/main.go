//go:build verif

// Check C17: dependency resolution installs only satisfying versions, refuses broken graphs.
//
//	part 1 (dagx/*, dagr/*): MapDag / MapUpgradingDag against a reference digraph
//	part 2 (res/*):          resolver.Reconciler against the simulated API server + fake tag lists
//	part 3 (dep/*):          PackageDependencyManager.Resolve against a reference closure
package main

import (
	"encoding/json"
	"fmt"
	"os"
	"os/exec"
	"path/filepath"
	"runtime"
	"sort"
	"strconv"
	"strings"
	"sync"

	"github.com/crossplane/crossplane/verifh/kit"
)

// sampler keeps, per part, the written-out cases with the lowest indices, so that the samples
// in the evidence do not depend on goroutine scheduling.
type sampler struct {
	mu   sync.Mutex
	best map[string][]sampleEntry
	max  map[string]int
}

type sampleEntry struct {
	idx int
	v   any
}

var samples = &sampler{best: map[string][]sampleEntry{}, max: map[string]int{"dag": 1, "res": 2, "dep": 1}}

func (s *sampler) offer(part string, idx int, mk func() any) {
	s.mu.Lock()
	defer s.mu.Unlock()
	b := s.best[part]
	if len(b) >= s.max[part] && idx > b[len(b)-1].idx {
		return
	}
	b = append(b, sampleEntry{idx, mk()})
	sort.Slice(b, func(i, j int) bool { return b[i].idx < b[j].idx })
	if len(b) > s.max[part] {
		b = b[:s.max[part]]
	}
	s.best[part] = b
}

func (s *sampler) flush(c *kit.Ctx) {
	for _, part := range []string{"dag", "res", "dep"} {
		for _, e := range s.best[part] {
			c.Sample(e.v)
		}
	}
}

// Violations are collected and handed to the kit at the end, one per key with the witness of
// the lowest case, so that the reported case does not depend on goroutine scheduling.
type pendingViolation struct {
	name, what string
	witness    any
	order      []int
}

var (
	violMu sync.Mutex
	viols  = map[string]*pendingViolation{}
)

func caseOrder(name string) []int {
	parts := strings.Split(name, "/")
	o := []int{map[string]int{"dagx": 0, "dagr": 1, "res": 2, "dep": 3}[parts[0]]}
	for _, p := range parts[1:] {
		n, _ := strconv.Atoi(p)
		o = append(o, n)
	}
	return o
}

func lessOrder(a, b []int) bool {
	for i := 0; i < len(a) && i < len(b); i++ {
		if a[i] != b[i] {
			return a[i] < b[i]
		}
	}
	return len(a) < len(b)
}

func violate(c *kit.Ctx, key, name, what string, witness any) {
	c.Count("violation_occurrences", 1)
	violMu.Lock()
	defer violMu.Unlock()
	o := caseOrder(name)
	if cur, ok := viols[key]; ok && !lessOrder(o, cur.order) {
		return
	}
	viols[key] = &pendingViolation{name, what, witness, o}
}

func flushViolations(c *kit.Ctx) {
	violMu.Lock()
	defer violMu.Unlock()
	keys := make([]string, 0, len(viols))
	for k := range viols {
		keys = append(keys, k)
	}
	sort.Slice(keys, func(i, j int) bool {
		a, b := viols[keys[i]], viols[keys[j]]
		if lessOrder(a.order, b.order) != lessOrder(b.order, a.order) {
			return lessOrder(a.order, b.order)
		}
		return keys[i] < keys[j]
	})
	for _, k := range keys {
		v := viols[k]
		c.Violate(k, v.name, v.what, v.witness)
	}
}

func parallel(n int, f func(i int)) {
	workers := runtime.GOMAXPROCS(0)
	if workers > 16 {
		workers = 16
	}
	var wg sync.WaitGroup
	ch := make(chan int, 256)
	for w := 0; w < workers; w++ {
		wg.Add(1)
		go func() {
			defer wg.Done()
			for i := range ch {
				f(i)
			}
		}()
	}
	for i := 0; i < n; i++ {
		ch <- i
	}
	close(ch)
	wg.Wait()
}

// supervise re-executes the binary as a child that does the work. A Go fatal error (stack
// overflow in a mutated recursive DAG walk) ends a process with status 2, which ./check reads
// as "inconclusive" before it looks for the pending-input file; the supervisor turns a child
// that died while a pending file exists into a proper VIOLATION line and exit status 1.
func supervise() {
	exe, err := os.Executable()
	if err != nil {
		return // fall through: run in-process
	}
	pend := filepath.Join(kit.Root(), "replays", "pending-C17.json")
	_ = os.Remove(pend)
	cmd := exec.Command(exe)
	cmd.Env = append(os.Environ(), "VERIF_C17_CHILD=1")
	cmd.Stdout, cmd.Stderr, cmd.Stdin = os.Stdout, os.Stderr, nil
	runErr := cmd.Run()
	code := 0
	if runErr != nil {
		code = 3
		if ee, ok := runErr.(*exec.ExitError); ok && ee.ExitCode() >= 0 {
			code = ee.ExitCode()
		}
	}
	if b, rerr := os.ReadFile(pend); rerr == nil && code != 0 {
		var p map[string]any
		_ = json.Unmarshal(b, &p)
		seed := os.Getenv("VERIF_SEED")
		if seed == "" {
			seed = "1"
		}
		w := filepath.Join(kit.Root(), "replays", "C17-crash-seed"+seed+".json")
		_ = os.Rename(pend, w)
		fmt.Printf("  violation key=%v case=%v: %v\n", p["key"], p["case"], p["what"])
		fmt.Printf("VIOLATION property=C17 replay=%s\n", w)
		os.Exit(1)
	}
	os.Exit(code)
}

func main() {
	if os.Getenv("VERIF_C17_CHILD") == "" {
		supervise()
	}
	c := kit.New("C17", "exploration")
	c.Rule = "part 1: every digraph on a universe of <=3 (quick) / <=4 (thorough) ids - every subset of listed nodes, every edge set " +
		"leaving listed nodes incl. self-loops and edges to unlisted (implied) ids - each in 3 variants (MapDag+lock packages via Init, " +
		"MapUpgradingDag+lock packages with mixed constraints via Init, own node type via AddNodes/AddEdge), plus seeded random graphs on 5-12 ids; " +
		"part 2: generated locks (install / cycle / upgrade / installed-not-in-lock / noop) x {upgrades off, on, on+downgrades} with unsorted tag lists " +
		"(v-prefix, short forms, prereleases, non-semver junk) and constraint strings (ranges, exact, digests, invalid), up to 4 reconciles with the " +
		"package manager's lock write simulated in between; part 3: generated lock + active revision + declared dependencies. " +
		"A case is distinct by its canonical input; non-trivial iff its graph has a cycle, a diamond (two paths to one dependency) or an implied node " +
		"(parts 1,3) / its lock has a cycle or a consulted tag list has a non-semver tag between two valid ones (part 2). " +
		"Not generated (debatable): duplicate node ids, two dependency entries on the same package in one lock entry, empty ids, build metadata in tags, " +
		"a lock entry with the revision's name but another source, inactive revisions. For a missing dependency declared by several parents with " +
		"different constraints the version is accepted if it is correct for any one parent's constraint (the property speaks of 'the declared constraint')."
	c.Rule += " dep: a fifth of the cases list one dependency twice with different constraints (every entry counts)."
	c.Rule += " " + "A third party edits the Lock right before call k of Resolve."
	c.Rule += " " + "The real revision reconciler over a Lock whose dependency leaves, returns violating, returns fine, with deactivation and re-activation; a missing dependency next to an installed package of the same repository path on another registry."
	c.Rule += " " + "Three revisions (A -> B -> C missing, Z) reconciled by ONE revision reconciler: while the response to each write of A's reconcile is in flight, B and Z are reconciled to completion; a satisfied report is held against the Lock."
	c.Rule += " " + "res-paged-registry: the resolver with the real registry fetcher against an in-process registry that serves its tag list in pages of 4 with a Link header; the highest satisfying tag is installed wherever it is listed."
	c.Assumptions = []string{
		"github.com/Masterminds/semver NewVersion/NewConstraint/Constraints.Check/Version.Compare are the trusted primitives",
		"a digest constraint is exactly sha256:<64 lowercase hex>",
		"sim reproduces apiserver create/update/list semantics for Lock and package objects; no faults are injected",
		"a reconcile/Resolve that panics is judged like an error return (only what got installed / reported satisfied is constrained)",
		"a spurious error on fully satisfied input is counted, not flagged (the property is one-directional)",
	}
	maxK := 3
	if c.Thorough() {
		maxK = 4
	}
	c.Floor = c.N(6000, 150000)

	nx := dagExhaustive(c, maxK)
	c.Count("dag_exhaustive_graphs", int64(nx))
	c.Extra("dag_exhaustive_max_ids", maxK)
	parallel(c.N(5000, 200000), func(i int) { dagRandomCase(c, i) })
	parallel(c.N(8000, 60000), func(i int) { runResolverCase(c, i) })
	parallel(c.N(8000, 60000), func(i int) { runResolveCase(c, i) })
	parallel(c.N(30, 300), func(i int) { revisionHistory(c, i) })
	parallel(c.N(8, 40), func(i int) { sharedManagerInterleave(c, i) })
	if err := kit.Try(func() { pagedRegistry(c) }); err != nil {
		c.Violate("harness-panic:paged-registry", "res-paged-registry", err.Error(), nil)
	}
	parallel(18, func(i int) { mirrorCase(c, i) })
	c.Exhaustive(false) // parts 2 and 3 are sampled; part 1 is exhaustive up to dag_exhaustive_max_ids
	samples.flush(c)
	flushViolations(c)

	if c.Only == "" {
		for _, need := range []string{
			"dag_sort_cycle_errors", "dag_sort_orders_checked", "dag_traces_checked", "dag_graphs_diamond", "dag_graphs_implied", "dag_graphs_selfloop",
			"res_decisions_install_highest_satisfying_tag", "res_decisions_install_from_list_with_junk", "res_decisions_install_pinned_digest",
			"res_decisions_upgrade_lowest_not_older", "res_decisions_downgrade_highest_older", "res_decisions_cycle_refused",
			"res_decisions_nothing_qualifies_or_undefined", "dep_decisions_satisfied", "dep_decisions_missing", "dep_decisions_invalid_incompatible-version",
			"dep_decisions_invalid_digest-mismatch",
		} {
			if c.Counter(need) == 0 {
				c.Inconclusive("nothing observed for " + need)
			}
		}
	}
	c.Finish()
}
