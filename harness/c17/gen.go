//go:build verif

package main

import (
	"fmt"
	"math/rand/v2"
	"regexp"
	"strings"

	"github.com/Masterminds/semver"
)

// ---------- generators ----------

var junkTags = []string{
	"latest", "main", "edge", "nightly-20240101", "1.2.3.4", "v1.x", "release-1.0",
	"1.0.0_amd64", "abc", "sha-0f3c2d1", "v", "1..2", "v1.0.0.0", "stable", "1.0.0-", "x.y.z",
}

func genVersion(r *rand.Rand) string {
	maj, min, pat := r.IntN(3), r.IntN(4), r.IntN(4)
	s := fmt.Sprintf("%d.%d.%d", maj, min, pat)
	switch x := r.IntN(100); {
	case x < 5:
		s = fmt.Sprintf("%d.%d", maj, min)
	case x < 8:
		s = fmt.Sprintf("%d", maj+1)
	}
	if r.IntN(100) < 60 {
		s = "v" + s
	}
	return s
}

func genPre(r *rand.Rand) string {
	return []string{"-rc.1", "-rc.2", "-alpha", "-beta.2", "-0", "-rc.10"}[r.IntN(6)]
}

func validTag(t string) bool {
	_, err := semver.NewVersion(t)
	return err == nil
}

// junkBetween: a tag that is not a semantic version sits between two that are.
func junkBetween(tags []string) bool {
	first, last := -1, -1
	for i, t := range tags {
		if validTag(t) {
			if first < 0 {
				first = i
			}
			last = i
		}
	}
	if first < 0 {
		return false
	}
	for i := first + 1; i < last; i++ {
		if !validTag(tags[i]) {
			return true
		}
	}
	return false
}

func hasJunk(tags []string) bool {
	for _, t := range tags {
		if !validTag(t) {
			return true
		}
	}
	return false
}

// genTags makes an unsorted tag list: semantic versions (v-prefixed or not, short forms),
// prereleases, and non-semver junk. must (if any) are included.
func genTags(r *rand.Rand, must ...string) []string {
	n := r.IntN(10)
	var tags []string
	for i := 0; i < n; i++ {
		switch x := r.IntN(100); {
		case x < 60:
			tags = append(tags, genVersion(r))
		case x < 75:
			v := genVersion(r)
			if strings.Count(v, ".") == 2 {
				v += genPre(r)
			}
			tags = append(tags, v)
		default:
			tags = append(tags, junkTags[r.IntN(len(junkTags))])
		}
	}
	tags = append(tags, must...)
	r.Shuffle(len(tags), func(i, j int) { tags[i], tags[j] = tags[j], tags[i] })
	// most lists get a junk tag forced between two valid ones
	if r.IntN(100) < 70 {
		var vi []int
		for i, t := range tags {
			if validTag(t) {
				vi = append(vi, i)
			}
		}
		if len(vi) >= 2 && !junkBetween(tags) {
			at := vi[0] + 1
			j := junkTags[r.IntN(len(junkTags))]
			tags = append(tags[:at], append([]string{j}, tags[at:]...)...)
		}
	}
	// de-duplicate exact strings (a registry lists a tag once)
	seen := map[string]bool{}
	out := tags[:0]
	for _, t := range tags {
		if !seen[t] {
			seen[t] = true
			out = append(out, t)
		}
	}
	return out
}

func genDigest(r *rand.Rand) string {
	const hx = "0123456789abcdef"
	b := make([]byte, 64)
	for i := range b {
		b[i] = hx[r.IntN(16)]
	}
	return "sha256:" + string(b)
}

var invalidConstraints = []string{
	"not-a-constraint", ">>1.0", "sha256:abc", "", "latest", "v1.0.0.0", ">=", "sha512:00", "1.0.0 &&", "~>",
}

// genConstraint makes a constraint string: ranges, exact versions, digests, invalid.
// kindOut: range | exact | digest | invalid
func genConstraint(r *rand.Rand, tags []string) (string, string) {
	ver := func() string {
		if len(tags) > 0 && r.IntN(100) < 60 {
			t := tags[r.IntN(len(tags))]
			if validTag(t) {
				return t
			}
		}
		return genVersion(r)
	}
	switch x := r.IntN(100); {
	case x < 30:
		op := []string{">=", ">", "<", "<=", "^", "~", "!=", "="}[r.IntN(8)]
		return op + ver(), "range"
	case x < 40:
		return ">=" + ver() + ", <" + ver(), "range"
	case x < 44:
		return ver() + " - " + ver(), "range"
	case x < 49:
		return ">=" + ver() + " || <" + ver(), "range"
	case x < 55:
		return []string{"*", "1.x", "1.2.x", "0.x", "2.x", ">=0.0.0"}[r.IntN(6)], "range"
	case x < 60:
		return []string{">=0.0.0-0", ">=1.0.0-0", "^1.0.0-rc.1", ">0.1.0-alpha"}[r.IntN(4)], "range"
	case x < 75:
		if len(tags) > 0 && r.IntN(100) < 70 {
			return tags[r.IntN(len(tags))], "exact" // may be a junk tag: then it is an invalid constraint
		}
		return genVersion(r), "exact"
	case x < 90:
		return genDigest(r), "digest"
	default:
		return invalidConstraints[r.IntN(len(invalidConstraints))], "invalid"
	}
}

// ---------- oracle (trusted primitives: semver.NewVersion, NewConstraint, Constraints.Check, Version.Compare) ----------

var digestRe = regexp.MustCompile(`^sha256:[a-f0-9]{64}$`)

func isDigest(s string) bool { return digestRe.MatchString(s) }

// satisfies: does an installed version string satisfy one declared constraint?
func satisfies(version, constraint string) bool {
	if isDigest(constraint) {
		return version == constraint
	}
	c, err := semver.NewConstraint(constraint)
	if err != nil {
		return false
	}
	v, err := semver.NewVersion(version)
	if err != nil {
		return false
	}
	return c.Check(v)
}

// installSet returns the versions that are a correct answer for installing a missing
// dependency under one constraint: exactly the digest, or every tag whose version is the
// maximum among the satisfying semantic-version tags (ties: equal precedence). Empty = nothing
// may be installed.
func installSet(constraint string, tags []string) map[string]bool {
	acc := map[string]bool{}
	if isDigest(constraint) {
		acc[constraint] = true
		return acc
	}
	c, err := semver.NewConstraint(constraint)
	if err != nil {
		return acc
	}
	var best *semver.Version
	for _, t := range tags {
		v, err := semver.NewVersion(t)
		if err != nil || !c.Check(v) {
			continue
		}
		if best == nil || v.Compare(best) > 0 {
			best = v
		}
	}
	if best == nil {
		return acc
	}
	for _, t := range tags {
		v, err := semver.NewVersion(t)
		if err != nil || !c.Check(v) {
			continue
		}
		if v.Compare(best) == 0 {
			acc[t] = true
		}
	}
	return acc
}

// upgradeSet returns the correct targets for moving an installed dependency (current version
// cur) under all its parents' constraints: the lowest not-older satisfying tag, else (only with
// downgrades) the highest older one; a digest only if every parent pins that same digest.
// curOK=false means the installed version is not a semantic version, so "older" is undefined:
// then acc holds every tag that satisfies all parents (safety only).
func upgradeSet(parents, tags []string, cur string, downgrades bool) (acc map[string]bool, curOK bool) {
	acc = map[string]bool{}
	digests := map[string]bool{}
	var cs []*semver.Constraints
	for _, p := range parents {
		if isDigest(p) {
			digests[p] = true
			continue
		}
		c, err := semver.NewConstraint(p)
		if err != nil {
			return acc, true // an unparsable constraint is satisfied by nothing
		}
		cs = append(cs, c)
	}
	if len(digests) > 0 {
		if len(cs) == 0 && len(digests) == 1 {
			for d := range digests {
				acc[d] = true
			}
		}
		return acc, true
	}
	type tv struct {
		t string
		v *semver.Version
	}
	var valid []tv
	for _, t := range tags {
		v, err := semver.NewVersion(t)
		if err != nil {
			continue
		}
		ok := true
		for _, c := range cs {
			if !c.Check(v) {
				ok = false
			}
		}
		if ok {
			valid = append(valid, tv{t, v})
		}
	}
	cv, err := semver.NewVersion(cur)
	if err != nil {
		for _, x := range valid {
			acc[x.t] = true
		}
		return acc, false
	}
	var pick *semver.Version
	for _, x := range valid { // lowest not-older
		if x.v.Compare(cv) >= 0 && (pick == nil || x.v.Compare(pick) < 0) {
			pick = x.v
		}
	}
	if pick == nil && downgrades {
		for _, x := range valid { // highest (all are older here)
			if pick == nil || x.v.Compare(pick) > 0 {
				pick = x.v
			}
		}
	}
	if pick == nil {
		return acc, true
	}
	for _, x := range valid {
		if x.v.Compare(pick) == 0 {
			acc[x.t] = true
		}
	}
	return acc, true
}

func setList(m map[string]bool) []string { return sortedKeys(m) }
