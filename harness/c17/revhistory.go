// Revision reconciler over dependency histories (C17): what a revision REPORTS about its
// dependencies follows the Lock, reconcile after reconcile.
//go:build verif

package main

import (
	"bytes"
	"context"
	"errors"
	"fmt"
	"io"
	os2 "os"
	"strings"
	"sync"

	"github.com/Masterminds/semver"
	"k8s.io/apimachinery/pkg/apis/meta/v1/unstructured"
	"k8s.io/apimachinery/pkg/types"
	"sigs.k8s.io/controller-runtime/pkg/reconcile"

	"github.com/crossplane/crossplane-runtime/pkg/parser"

	v1 "github.com/crossplane/crossplane/apis/pkg/v1"
	"github.com/crossplane/crossplane/internal/controller/pkg/revision"
	"github.com/crossplane/crossplane/internal/dag"
	"github.com/crossplane/crossplane/internal/xpkg"
	"github.com/crossplane/crossplane/verifh/kit"
	"github.com/crossplane/crossplane/verifh/sim"
	"github.com/crossplane/crossplane/verifh/xrk"
)

type pkgCache struct {
	mu sync.Mutex
	m  map[string][]byte
}

func (c *pkgCache) Has(id string) bool { c.mu.Lock(); defer c.mu.Unlock(); _, ok := c.m[id]; return ok }
func (c *pkgCache) Get(id string) (io.ReadCloser, error) {
	c.mu.Lock()
	defer c.mu.Unlock()
	b, ok := c.m[id]
	if !ok {
		return nil, errors.New("not cached")
	}
	return io.NopCloser(bytes.NewReader(b)), nil
}
func (c *pkgCache) Store(id string, rc io.ReadCloser) error {
	b, err := io.ReadAll(rc)
	if err != nil {
		return err
	}
	c.mu.Lock()
	defer c.mu.Unlock()
	c.m[id] = b
	return nil
}
func (c *pkgCache) Delete(id string) error {
	c.mu.Lock()
	defer c.mu.Unlock()
	delete(c.m, id)
	return nil
}

const depSource = "xpkg.example.org/acme/provider-dep"

// revisionHistory: a Configuration revision that depends on a provider (>= v1.0.0) is reconciled
// by the REAL revision reconciler with the real dependency manager while the Lock changes under
// it: the dependency is there and fine, leaves the Lock, comes back at a violating version, comes
// back fine, the revision is deactivated and re-activated. After every reconcile the revision may
// report its dependencies satisfied (Healthy, found == installed, none invalid) only if the Lock,
// read by the harness, holds the dependency at a satisfying version.
func revisionHistory(c *kit.Ctx, i int) {
	caseName := fmt.Sprintf("revision-history/%d", i)
	if !c.Want(caseName) {
		return
	}
	r := c.Rng("revision-history", i)
	w := sim.NewWorld(xrk.Scheme(), uint64(c.Seed)*271+uint64(i))
	setup := w.Client("setup")
	ctx := context.Background()
	lock := map[string]any{"apiVersion": "pkg.crossplane.io/v1beta1", "kind": "Lock", "metadata": map[string]any{"name": "lock"}, "packages": []any{}}
	w.MustSeed("setup", lock)
	lockKey := sim.Key{Group: "pkg.crossplane.io", Kind: "Lock", Name: "lock"}
	depEntry := func(version string) map[string]any {
		return map[string]any{"name": "provider-dep-abc123", "apiVersion": "pkg.crossplane.io/v1", "kind": "Provider", "type": "Provider", "source": depSource, "version": version, "dependencies": []any{}}
	}
	setDep := func(version string) { // "" = absent
		l := &unstructured.Unstructured{Object: w.GetObj(lockKey)}
		ps, _, _ := unstructured.NestedSlice(l.Object, "packages")
		var keep []any
		for _, p := range ps {
			if m, ok := p.(map[string]any); ok && m["source"] != depSource {
				keep = append(keep, p)
			}
		}
		if version != "" {
			keep = append(keep, depEntry(version))
		}
		_ = unstructured.SetNestedSlice(l.Object, keep, "packages")
		if err := setup.Update(ctx, l); err != nil {
			panic(err)
		}
	}
	cons, _ := semver.NewConstraint(">=v1.0.0")
	lockSatisfies := func() bool {
		ps, _, _ := unstructured.NestedSlice(w.GetObj(lockKey), "packages")
		for _, p := range ps {
			if m, ok := p.(map[string]any); ok && m["source"] == depSource {
				v, err := semver.NewVersion(fmt.Sprint(m["version"]))
				return err == nil && cons.Check(v)
			}
		}
		return false
	}

	w.MustSeed("setup", map[string]any{"apiVersion": "pkg.crossplane.io/v1", "kind": "Configuration", "metadata": map[string]any{"name": "cfg"}, "spec": map[string]any{"package": "xpkg.example.org/acme/cfg:v1"}})
	cfg := w.GetObj(sim.Key{Group: "pkg.crossplane.io", Kind: "Configuration", Name: "cfg"})
	revName := "cfg-0a1b2c3d4e5f"
	w.MustSeed("setup", map[string]any{"apiVersion": "pkg.crossplane.io/v1", "kind": "ConfigurationRevision",
		"metadata": map[string]any{"name": revName, "labels": map[string]any{"pkg.crossplane.io/package": "cfg"},
			"ownerReferences": []any{map[string]any{"apiVersion": "pkg.crossplane.io/v1", "kind": "Configuration", "name": "cfg", "uid": sim.Str(cfg, "metadata", "uid"), "controller": true, "blockOwnerDeletion": true}}},
		"spec": map[string]any{"image": "xpkg.example.org/acme/cfg:v1", "desiredState": "Active", "revision": int64(1), "skipDependencyResolution": false}})
	revKey := sim.Key{Group: "pkg.crossplane.io", Kind: "ConfigurationRevision", Name: revName}

	cl := w.Client("revision")
	ms, err := xpkg.BuildMetaScheme()
	if err != nil {
		panic(err)
	}
	os, err := xpkg.BuildObjectScheme()
	if err != nil {
		panic(err)
	}
	cache := &pkgCache{m: map[string][]byte{revName: []byte("apiVersion: meta.pkg.crossplane.io/v1\nkind: Configuration\nmetadata:\n  name: cfg\nspec:\n  dependsOn:\n  - apiVersion: pkg.crossplane.io/v1\n    kind: Provider\n    package: " + depSource + "\n    version: \">=v1.0.0\"\n")}}
	rec := revision.NewReconciler(xrk.NewManager(w, cl),
		revision.WithCache(cache),
		revision.WithDependencyManager(revision.NewPackageDependencyManager(cl, dag.NewMapDag, v1.ConfigurationGroupVersionKind)),
		revision.WithEstablisher(revision.NewAPIEstablisher(cl, "crossplane-system", 2)),
		revision.WithNewPackageRevisionFn(func() v1.PackageRevision { return &v1.ConfigurationRevision{} }),
		revision.WithParser(parser.New(ms, os)),
		revision.WithConfigStore(xpkg.NewImageConfigStore(cl, "crossplane-system")),
		revision.WithLinter(xpkg.NewConfigurationLinter()),
		revision.WithNamespace("crossplane-system"),
		revision.WithServiceAccount("crossplane"),
	)
	setState := func(st string) {
		u := &unstructured.Unstructured{Object: w.GetObj(revKey)}
		_ = unstructured.SetNestedField(u.Object, st, "spec", "desiredState")
		if err := w.Client("pkgmgr").Update(ctx, u); err != nil {
			panic(err)
		}
	}
	steps := []string{"dep-ok", "dep-gone", "dep-ok", "dep-violating", "dep-ok", "deactivate", "dep-gone", "activate", "dep-ok"}
	// a seeded rotation of the middle part keeps the histories apart
	if k := r.IntN(3); k > 0 {
		steps = append(steps[:1], append(steps[1+2*k-2:], steps[1:1+2*k-2]...)...)
	}
	var trace []string
	reported := 0
	for si, st := range steps {
		switch st {
		case "dep-ok":
			setDep([]string{"v1.0.0", "v1.2.3", "v2.0.0"}[r.IntN(3)])
		case "dep-gone":
			setDep("")
		case "dep-violating":
			setDep([]string{"v0.9.0", "v0.1.0"}[r.IntN(2)])
		case "deactivate":
			setState("Inactive")
		case "activate":
			setState("Active")
		}
		for n := 0; n < 2; n++ {
			var rerr error
			if p := kit.Try(func() {
				_, rerr = rec.Reconcile(ctx, reconcile.Request{NamespacedName: types.NamespacedName{Name: revName}})
			}); p != nil {
				c.Violate("panic-in-revision-reconcile", caseName, p.Error(), map[string]any{"steps": steps, "trace": trace})
				return
			}
			rv := w.GetObj(revKey)
			active := sim.Str(rv, "spec", "desiredState") == "Active"
			healthy := false
			conds, _, _ := unstructured.NestedSlice(rv, "status", "conditions")
			for _, cd := range conds {
				if m, ok := cd.(map[string]any); ok && m["type"] == "Healthy" {
					healthy = m["status"] == "True"
				}
			}
			found, _, _ := unstructured.NestedInt64(rv, "status", "foundDependencies")
			inst, _, _ := unstructured.NestedInt64(rv, "status", "installedDependencies")
			inv, _, _ := unstructured.NestedInt64(rv, "status", "invalidDependencies")
			satisfied := healthy && found > 0 && inst == found && inv == 0
			trace = append(trace, fmt.Sprintf("step %d %s reconcile %d: err=%v active=%v healthy=%v found=%d installed=%d invalid=%d lockSatisfies=%v", si, st, n+1, rerr, active, healthy, found, inst, inv, lockSatisfies()))
			// judged for an ACTIVE revision after its reconcile returned without error: what it then
			// reports is its own, fresh statement
			if active && rerr == nil && satisfied {
				reported++
				if !lockSatisfies() {
					c.Violate("revision-reports-dependencies-satisfied-against-the-lock", caseName,
						fmt.Sprintf("after step %d (%s), reconcile %d: the revision is Healthy with found=%d installed=%d invalid=%d, but the Lock does not hold %s at a version satisfying >=v1.0.0", si, st, n+1, found, inst, inv, depSource),
						map[string]any{"steps": steps, "trace": trace, "lock": w.GetObj(lockKey)["packages"]})
					return
				}
			}
		}
	}
	if os2.Getenv("DBG") != "" && i == 0 {
		fmt.Fprintln(os2.Stderr, "DBG", strings.Join(trace, "\n   "))
	}
	c.Eval(caseName, reported > 0)
	c.Count("revision_history_cases", 1)
	c.Count("revision_history_satisfied_reports_checked", int64(reported))
}

// sharedManagerInterleave: three ConfigurationRevisions - A depends on B, B depends on C (which
// nobody installs), Z depends on nothing - are reconciled by ONE revision reconciler (one
// dependency manager, as the package controller's workers share it). While the response to one
// of A's write requests is in flight, other workers reconcile B and Z to completion, at every
// write of A's reconcile and in both orders. Whatever the workers share, a revision that then
// reports its dependencies satisfied has every direct and transitive dependency in the Lock.
func sharedManagerInterleave(c *kit.Ctx, i int) {
	r := c.Rng("shared-manager", i)
	order := [][]string{{"b", "z"}, {"z", "b"}, {"z"}, {"b", "z", "b"}}[i%4]
	ms, err := xpkg.BuildMetaScheme()
	if err != nil {
		panic(err)
	}
	os, err := xpkg.BuildObjectScheme()
	if err != nil {
		panic(err)
	}
	meta := func(name, dep string) []byte {
		s := "apiVersion: meta.pkg.crossplane.io/v1\nkind: Configuration\nmetadata:\n  name: " + name + "\nspec:\n"
		if dep != "" {
			s += "  dependsOn:\n  - configuration: xpkg.example.org/acme/cfg-" + dep + "\n    version: \">=v1.0.0\"\n"
		} else {
			s += "  crossplane:\n    version: \">=v0.0.0\"\n"
		}
		return []byte(s)
	}
	deps := map[string]string{"a": "b", "b": "c", "z": ""}
	build := func() (*sim.World, *sim.Client, *revision.Reconciler) {
		w := sim.NewWorld(xrk.Scheme(), uint64(c.Seed)*277+uint64(i))
		w.MustSeed("setup", map[string]any{"apiVersion": "pkg.crossplane.io/v1beta1", "kind": "Lock", "metadata": map[string]any{"name": "lock"}, "packages": []any{}})
		cache := &pkgCache{m: map[string][]byte{}}
		for _, n := range []string{"a", "b", "z"} {
			w.MustSeed("setup", map[string]any{"apiVersion": "pkg.crossplane.io/v1", "kind": "Configuration", "metadata": map[string]any{"name": "cfg-" + n}, "spec": map[string]any{"package": "xpkg.example.org/acme/cfg-" + n + ":v1.2.0"}})
			cfg := w.GetObj(sim.Key{Group: "pkg.crossplane.io", Kind: "Configuration", Name: "cfg-" + n})
			rn := "cfg-" + n + "-0a1b2c3d4e5f"
			w.MustSeed("setup", map[string]any{"apiVersion": "pkg.crossplane.io/v1", "kind": "ConfigurationRevision",
				"metadata": map[string]any{"name": rn, "labels": map[string]any{"pkg.crossplane.io/package": "cfg-" + n},
					"ownerReferences": []any{map[string]any{"apiVersion": "pkg.crossplane.io/v1", "kind": "Configuration", "name": "cfg-" + n, "uid": sim.Str(cfg, "metadata", "uid"), "controller": true, "blockOwnerDeletion": true}}},
				"spec": map[string]any{"image": "xpkg.example.org/acme/cfg-" + n + ":v1.2.0", "desiredState": "Active", "revision": int64(1), "skipDependencyResolution": false}})
			cache.m[rn] = meta("cfg-"+n, deps[n])
		}
		cl := w.Client("revision")
		rec := revision.NewReconciler(xrk.NewManager(w, cl),
			revision.WithCache(cache),
			revision.WithDependencyManager(revision.NewPackageDependencyManager(cl, dag.NewMapDag, v1.ConfigurationGroupVersionKind)),
			revision.WithEstablisher(revision.NewAPIEstablisher(cl, "crossplane-system", 2)),
			revision.WithNewPackageRevisionFn(func() v1.PackageRevision { return &v1.ConfigurationRevision{} }),
			revision.WithParser(parser.New(ms, os)),
			revision.WithConfigStore(xpkg.NewImageConfigStore(cl, "crossplane-system")),
			revision.WithLinter(xpkg.NewConfigurationLinter()),
			revision.WithNamespace("crossplane-system"),
			revision.WithServiceAccount("crossplane"),
		)
		return w, cl, rec
	}
	ctx := context.Background()
	lockKey := sim.Key{Group: "pkg.crossplane.io", Kind: "Lock", Name: "lock"}
	inLock := func(w *sim.World, n string) bool {
		ps, _, _ := unstructured.NestedSlice(w.GetObj(lockKey), "packages")
		for _, p := range ps {
			if m, ok := p.(map[string]any); ok && m["source"] == "xpkg.example.org/acme/cfg-"+n {
				return true
			}
		}
		return false
	}
	// judge: after a reconcile of revision n returned, if it reports satisfied the Lock holds its closure
	judge := func(w *sim.World, n string, rerr error, caseName string, trace *[]string) bool {
		rv := w.GetObj(sim.Key{Group: "pkg.crossplane.io", Kind: "ConfigurationRevision", Name: "cfg-" + n + "-0a1b2c3d4e5f"})
		healthy := false
		conds, _, _ := unstructured.NestedSlice(rv, "status", "conditions")
		for _, cd := range conds {
			if m, ok := cd.(map[string]any); ok && m["type"] == "Healthy" {
				healthy = m["status"] == "True"
			}
		}
		found, _, _ := unstructured.NestedInt64(rv, "status", "foundDependencies")
		inst, _, _ := unstructured.NestedInt64(rv, "status", "installedDependencies")
		inv, _, _ := unstructured.NestedInt64(rv, "status", "invalidDependencies")
		*trace = append(*trace, fmt.Sprintf("reconcile cfg-%s: err=%v healthy=%v found=%d installed=%d invalid=%d lock has a=%v b=%v c=%v z=%v", n, rerr, healthy, found, inst, inv, inLock(w, "a"), inLock(w, "b"), inLock(w, "c"), inLock(w, "z")))
		if rerr != nil || !healthy || found == 0 || inst != found || inv != 0 {
			return true
		}
		c.Count("shared_manager_satisfied_reports_checked", 1)
		for d := deps[n]; d != ""; d = deps[d] {
			if !inLock(w, d) {
				c.Violate("revision-reports-dependencies-satisfied-against-the-lock:workers-share-the-dependency-manager", caseName,
					fmt.Sprintf("cfg-%s reports its dependencies satisfied (Healthy, found=%d installed=%d invalid=%d) but its (transitive) dependency cfg-%s is not in the Lock", n, found, inst, inv, d),
					map[string]any{"others_during_the_write": order, "steps": *trace, "lock": w.GetObj(lockKey)["packages"]})
				return false
			}
		}
		return true
	}
	req := func(n string) reconcile.Request {
		return reconcile.Request{NamespacedName: types.NamespacedName{Name: "cfg-" + n + "-0a1b2c3d4e5f"}}
	}
	// probe: how many writes does A's first reconcile issue?
	pw, pcl, prec := build()
	_, _ = prec.Reconcile(ctx, req("z"))
	writes := 0
	pcl.AfterWrite = func(string, sim.Key, error) { writes++ }
	_, _ = prec.Reconcile(ctx, req("a"))
	_ = pw
	for k := 0; k < writes; k++ {
		caseName := fmt.Sprintf("shared-manager/%d/during-write-%d", i, k)
		if !c.Want(caseName) {
			continue
		}
		w, cl, rec := build()
		var trace []string
		_, zerr := rec.Reconcile(ctx, req("z"))
		ok := judge(w, "z", zerr, caseName, &trace)
		n := 0
		busy := false
		cl.AfterWrite = func(verb string, key sim.Key, _ error) {
			if busy {
				return
			}
			if n == k {
				busy = true
				trace = append(trace, fmt.Sprintf("-- while the response to A's %s of %s is in flight:", verb, key))
				for _, o := range order {
					_, oerr := rec.Reconcile(ctx, req(o))
					ok = judge(w, o, oerr, caseName, &trace) && ok
				}
				trace = append(trace, "-- A's reconcile continues")
				busy = false
			}
			n++
		}
		var aerr error
		if p := kit.Try(func() { _, aerr = rec.Reconcile(ctx, req("a")) }); p != nil {
			c.Violate("panic-in-revision-reconcile:workers-share-the-dependency-manager", caseName, p.Error(), map[string]any{"steps": trace})
			continue
		}
		cl.AfterWrite = nil
		ok = judge(w, "a", aerr, caseName, &trace) && ok
		// then everybody once more, in a seeded order
		rest := []string{"a", "b", "z"}
		r.Shuffle(3, func(x, y int) { rest[x], rest[y] = rest[y], rest[x] })
		for _, o := range rest {
			if !ok {
				break
			}
			_, oerr := rec.Reconcile(ctx, req(o))
			ok = judge(w, o, oerr, caseName, &trace)
		}
		c.Eval(caseName, true)
		c.Count("shared_manager_interleavings", 1)
	}
}
