// The resolver over the REAL registry fetcher and a registry that pages its tag list (C17).
//go:build verif

package main

import (
	"context"
	"encoding/json"
	"fmt"
	"io"
	"log"
	"net/http"
	"net/http/httptest"
	"sort"
	"strings"

	"github.com/Masterminds/semver"
	"github.com/google/go-containerregistry/pkg/name"
	"github.com/google/go-containerregistry/pkg/registry"
	"github.com/google/go-containerregistry/pkg/v1/random"
	"github.com/google/go-containerregistry/pkg/v1/remote"
	corev1 "k8s.io/api/core/v1"
	kerrors "k8s.io/apimachinery/pkg/api/errors"
	metav1 "k8s.io/apimachinery/pkg/apis/meta/v1"
	"k8s.io/apimachinery/pkg/runtime/schema"
	"k8s.io/apimachinery/pkg/types"
	"k8s.io/client-go/kubernetes"
	corev1client "k8s.io/client-go/kubernetes/typed/core/v1"
	"k8s.io/utils/ptr"
	"sigs.k8s.io/controller-runtime/pkg/reconcile"

	"github.com/crossplane/crossplane-runtime/pkg/feature"
	"github.com/crossplane/crossplane-runtime/pkg/resource/fake"

	"github.com/crossplane/crossplane/apis/pkg/v1beta1"
	"github.com/crossplane/crossplane/internal/controller/pkg/resolver"
	"github.com/crossplane/crossplane/internal/dag"
	"github.com/crossplane/crossplane/internal/features"
	"github.com/crossplane/crossplane/internal/xpkg"
	"github.com/crossplane/crossplane/verifh/kit"
	"github.com/crossplane/crossplane/verifh/sim"
)

// pagedRegistry: a missing dependency lives in an in-process registry (go-containerregistry's own,
// behind a loopback listener) that serves its tag list in pages of pageCap tags with a Link header
// to the next page, as registries with a page-size limit do. The resolver runs with the REAL
// K8sFetcher. It installs the highest tag that satisfies the constraint - wherever in the list it
// is - and nothing when none does.
func pagedRegistry(c *kit.Ctx) {
	pageCap := 4
	reg := registry.New(registry.Logger(log.New(io.Discard, "", 0)))
	pages := 0
	srv := httptest.NewServer(http.HandlerFunc(func(rw http.ResponseWriter, rq *http.Request) {
		if rq.Method != http.MethodGet || !strings.HasSuffix(rq.URL.Path, "/tags/list") {
			reg.ServeHTTP(rw, rq)
			return
		}
		pages++
		q := rq.URL.Query()
		q.Del("n")
		inner := rq.Clone(rq.Context())
		inner.URL.RawQuery = q.Encode()
		rec := httptest.NewRecorder()
		reg.ServeHTTP(rec, inner)
		var body struct {
			Name string   `json:"name"`
			Tags []string `json:"tags"`
		}
		if rec.Code != http.StatusOK || json.Unmarshal(rec.Body.Bytes(), &body) != nil {
			rw.WriteHeader(rec.Code)
			_, _ = rw.Write(rec.Body.Bytes())
			return
		}
		if len(body.Tags) > pageCap {
			body.Tags = body.Tags[:pageCap]
			rw.Header().Set("Link", fmt.Sprintf("<%s?n=%d&last=%s>; rel=\"next\"", rq.URL.Path, pageCap, body.Tags[pageCap-1]))
		}
		b, _ := json.Marshal(body)
		rw.Header().Set("Content-Type", "application/json")
		_, _ = rw.Write(b)
	}))
	defer srv.Close()
	host := strings.TrimPrefix(srv.URL, "http://")
	im, err := random.Image(64, 1)
	if err != nil {
		panic(err)
	}
	tagSets := [][]string{
		{"latest", "v1.0.0", "v1.1.0", "v1.2.0", "v1.3.0", "v1.4.0", "v1.5.0", "v2.0.0", "v2.1.0"},
		{"edge", "v0.1.0", "v0.2.0", "v0.3.0", "v0.4.0", "v0.5.0", "v0.6.0", "v0.7.0", "v0.8.0", "v0.9.0", "v1.0.0"},
		{"v1.0.0", "v1.1.0"},
	}
	for ti, ts := range tagSets {
		for _, t := range ts {
			ref, err := name.ParseReference(fmt.Sprintf("%s/acme/dep-%d:%s", host, ti, t))
			if err != nil {
				panic(err)
			}
			if err := remote.Write(ref, im); err != nil {
				panic(err)
			}
		}
	}
	f, err := xpkg.NewK8sFetcher(noSecrets{}, xpkg.WithNamespace("crossplane-system"), xpkg.WithServiceAccount("crossplane"))
	if err != nil {
		panic(err)
	}
	constraints := []string{">=v1.0.0", ">=v1.0.0, <2.0.0", "<v0.5.0", ">=v3.0.0", "<=v1.4.0"}
	ctx := context.Background()
	n := 0
	for ti, ts := range tagSets {
		for ci, cons := range constraints {
			for mode := 0; mode < 2; mode++ {
				cname := fmt.Sprintf("res-paged-registry/%d", n)
				n++
				if !c.Want(cname) {
					continue
				}
				dep := fmt.Sprintf("%s/acme/dep-%d", host, ti)
				// reference: the highest semantic-version tag satisfying the constraint
				want := ""
				cc, _ := semver.NewConstraint(cons)
				var vs []*semver.Version
				for _, t := range ts {
					if v, err := semver.NewVersion(t); err == nil && cc.Check(v) {
						vs = append(vs, v)
					}
				}
				sort.Sort(semver.Collection(vs))
				if len(vs) > 0 {
					want = vs[len(vs)-1].Original()
				}
				w := sim.NewWorld(pkgScheme, uint64(c.Seed)*281+uint64(n))
				lk := &v1beta1.Lock{ObjectMeta: metav1.ObjectMeta{Name: "lock"}, Packages: []v1beta1.LockPackage{
					{Name: "config-parent-rev1", Source: "xpkg.io/acme/config-parent", Version: "v1.0.0", Type: ptr.To(v1beta1.ConfigurationPackageType),
						Dependencies: []v1beta1.Dependency{{Package: dep, Constraints: cons, Type: ptr.To(v1beta1.ProviderPackageType)}}},
				}}
				if err := w.Client("user").Create(ctx, lk); err != nil {
					c.Inconclusive("cannot seed lock: " + err.Error())
					return
				}
				w.MustSeed("user", map[string]any{"apiVersion": pkgGroup + "/v1", "kind": "Configuration", "metadata": map[string]any{"name": "config-parent"}, "spec": map[string]any{"package": "xpkg.io/acme/config-parent:v1.0.0"}})
				flags := &feature.Flags{}
				opts := []resolver.ReconcilerOption{resolver.WithFetcher(f), resolver.WithConfigStore(nopConfig{}), resolver.WithDefaultRegistry("xpkg.upbound.io"), resolver.WithFeatures(flags)}
				if mode == 1 {
					flags.Enable(features.EnableAlphaDependencyVersionUpgrades)
					opts = append(opts, resolver.WithNewDagFn(dag.NewUpgradingMapDag))
				}
				rec := resolver.NewReconciler(&fake.Manager{Client: w.Client("resolver")}, opts...)
				p0 := pages
				var rerr error
				perr := kit.Try(func() {
					_, rerr = rec.Reconcile(ctx, reconcile.Request{NamespacedName: types.NamespacedName{Name: "lock"}})
				})
				got := ""
				for _, o := range snapshotPkgs(w) {
					if o.src == dep {
						got = o.ver
					}
				}
				wit := map[string]any{"mode": modeNames[mode], "constraint": cons, "tags": ts, "page_size": pageCap, "tag_list_requests": pages - p0, "reconcileError": fmt.Sprint(rerr), "packages": fmt.Sprint(snapshotPkgs(w))}
				c.Count("res_paged_tag_list_requests", int64(pages-p0))
				switch {
				case perr != nil:
					violate(c, "resolver-panic", cname, firstLine(perr.Error()), wit)
				case got != want:
					violate(c, "resolver-missing-dependency-not-installed-at-highest-satisfying-tag:paged-tag-list", cname,
						fmt.Sprintf("dependency %s (%s) is missing; the registry lists %d tags in pages of %d; installed version %q, want %q", dep, cons, len(ts), pageCap, got, want), wit)
				}
				c.Eval(cname, len(ts) > pageCap && ci >= 0)
				c.Count("res_paged_registry_cases", 1)
			}
		}
	}
}

// noSecrets is the cluster the fetcher looks its pull secrets up in: no service account, no secret.
type noSecrets struct{ kubernetes.Interface }

func (noSecrets) CoreV1() corev1client.CoreV1Interface { return noSecretsCore{} }

type noSecretsCore struct{ corev1client.CoreV1Interface }

func (noSecretsCore) ServiceAccounts(string) corev1client.ServiceAccountInterface { return noSAs{} }
func (noSecretsCore) Secrets(string) corev1client.SecretInterface                 { return noSecs{} }

type noSAs struct{ corev1client.ServiceAccountInterface }

func (noSAs) Get(_ context.Context, n string, _ metav1.GetOptions) (*corev1.ServiceAccount, error) {
	return nil, kerrors.NewNotFound(schema.GroupResource{Resource: "serviceaccounts"}, n)
}

type noSecs struct{ corev1client.SecretInterface }

func (noSecs) Get(_ context.Context, n string, _ metav1.GetOptions) (*corev1.Secret, error) {
	return nil, kerrors.NewNotFound(schema.GroupResource{Resource: "secrets"}, n)
}
