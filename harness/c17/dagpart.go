//go:build verif

package main

import (
	"fmt"
	"math/rand/v2"
	"os"
	"path/filepath"
	"runtime/debug"
	"sort"
	"strings"

	"k8s.io/utils/ptr"

	"github.com/crossplane/crossplane/apis/pkg/v1beta1"
	"github.com/crossplane/crossplane/internal/dag"
	"github.com/crossplane/crossplane/verifh/kit"
)

// gspec is one generated graph: a universe of ids, which of them are in the node list, the
// edges (rows only for listed nodes), the list order and the order of each node's edges.
type gspec struct {
	ids     []string
	present []bool
	adj     [][]bool
	order   []int   // listed nodes, in list order
	eorder  [][]int // per node: edge targets in declaration order
	ver     []string
	cons    map[[2]int]string
}

func (g *gspec) ref() *refGraph {
	r := newRef()
	for i, p := range g.present {
		if p {
			r.addNode(g.ids[i])
		}
	}
	for i := range g.adj {
		if !g.present[i] {
			continue
		}
		for j, e := range g.adj[i] {
			if e {
				r.addEdge(g.ids[i], g.ids[j])
			}
		}
	}
	return r
}

func (g *gspec) canon() string {
	var sb strings.Builder
	for _, i := range g.order {
		fmt.Fprintf(&sb, "%d@%s>", i, g.ver[i])
		for _, j := range g.eorder[i] {
			fmt.Fprintf(&sb, "%d[%s],", j, g.cons[[2]int{i, j}])
		}
		sb.WriteString(";")
	}
	return sb.String()
}

func (g *gspec) describe() map[string]any {
	nodes := []any{}
	for _, i := range g.order {
		deps := []string{}
		for _, j := range g.eorder[i] {
			deps = append(deps, fmt.Sprintf("%s (%s)", g.ids[j], g.cons[[2]int{i, j}]))
		}
		nodes = append(nodes, map[string]any{"id": g.ids[i], "version": g.ver[i], "dependsOn": deps})
	}
	return map[string]any{"nodeList": nodes}
}

func nodeID(i int) string { return fmt.Sprintf("xpkg.io/t/n%d", i) }

// finish fills list order, edge order, versions and constraints from the case PRNG.
func (g *gspec) finish(r *rand.Rand, mixedConstraints bool) {
	k := len(g.ids)
	g.order = g.order[:0]
	for i := 0; i < k; i++ {
		if g.present[i] {
			g.order = append(g.order, i)
		}
	}
	r.Shuffle(len(g.order), func(a, b int) { g.order[a], g.order[b] = g.order[b], g.order[a] })
	g.eorder = make([][]int, k)
	g.ver = make([]string, k)
	g.cons = map[[2]int]string{}
	for i := 0; i < k; i++ {
		g.ver[i] = []string{"v1.0.0", "v1.2.0", "v2.0.0", "1.1.0"}[r.IntN(4)]
		if mixedConstraints && r.IntN(12) == 0 {
			g.ver[i] = "sha256:" + strings.Repeat("ab", 32)
		}
		if !g.present[i] {
			continue
		}
		for j := 0; j < k; j++ {
			if g.adj[i][j] {
				g.eorder[i] = append(g.eorder[i], j)
			}
		}
		e := g.eorder[i]
		r.Shuffle(len(e), func(a, b int) { e[a], e[b] = e[b], e[a] })
		for _, j := range e {
			c := ">=v1.0.0"
			if mixedConstraints {
				c = []string{">=v1.0.0", ">=v1.1.0", "<v2.0.0", "v1.2.0", "^1.0.0", ">v2.0.0", "bogus", "sha256:" + strings.Repeat("ab", 32), "*"}[r.IntN(9)]
			}
			g.cons[[2]int{i, j}] = c
		}
	}
}

func (g *gspec) lockPackages() []v1beta1.LockPackage {
	var pkgs []v1beta1.LockPackage
	for _, i := range g.order {
		lp := v1beta1.LockPackage{
			Name: fmt.Sprintf("rev-%d", i), Source: g.ids[i], Version: g.ver[i],
			Type: ptr.To(v1beta1.ProviderPackageType),
		}
		for _, j := range g.eorder[i] {
			lp.Dependencies = append(lp.Dependencies, v1beta1.Dependency{
				Package: g.ids[j], Constraints: g.cons[[2]int{i, j}], Type: ptr.To(v1beta1.ProviderPackageType),
			})
		}
		pkgs = append(pkgs, lp)
	}
	return pkgs
}

// plainNode is the harness's own minimal dag.Node (no versions): neighbours are kept by id.
type plainNode struct {
	id string
	nb []string
}

func (p *plainNode) Identifier() string { return p.id }
func (p *plainNode) Neighbors() []dag.Node {
	ns := make([]dag.Node, len(p.nb))
	for i, n := range p.nb {
		ns[i] = &plainNode{id: n}
	}
	return ns
}
func (p *plainNode) GetConstraints() string         { return "" }
func (p *plainNode) GetParentConstraints() []string { return nil }
func (p *plainNode) AddParentConstraints([]string)  {}
func (p *plainNode) AddNeighbors(ns ...dag.Node) error {
	for _, n := range ns {
		dup := false
		for _, x := range p.nb {
			if x == n.Identifier() {
				dup = true
			}
		}
		if !dup {
			p.nb = append(p.nb, n.Identifier())
		}
	}
	return nil
}

type dagImpl struct {
	name string
	fn   func() dag.DAG
}

var dagImpls = []dagImpl{{"mapdag", dag.NewMapDag}, {"upgrading", dag.NewUpgradingMapDag}}

func idsOf(ns []dag.Node) []string {
	out := make([]string, 0, len(ns))
	for _, n := range ns {
		out = append(out, n.Identifier())
	}
	sort.Strings(out)
	return out
}

// runDagCase builds the graph in the real DAG (variant lock = production node types through
// Init; variant plain = own node type through AddNodes/AddEdge) and compares every answer.
func runDagCase(c *kit.Ctx, name string, g *gspec, impl dagImpl, variant string, r *rand.Rand) {
	ref := g.ref()
	cyc, dia, imp, self := ref.classes()
	nontrivial := cyc || dia || imp
	c.Eval("dag|"+impl.name+"|"+variant+"|"+g.canon(), nontrivial)
	c.Count("dag_cases_"+impl.name+"_"+variant, 1)
	if cyc {
		c.Count("dag_graphs_cyclic", 1)
	}
	if dia {
		c.Count("dag_graphs_diamond", 1)
	}
	if imp {
		c.Count("dag_graphs_implied", 1)
	}
	if self {
		c.Count("dag_graphs_selfloop", 1)
	}
	if !cyc && !dia && !imp {
		c.Count("dag_graphs_plain", 1)
	}
	wit := func(extra map[string]any) map[string]any {
		w := g.describe()
		w["dag"] = impl.name
		w["variant"] = variant
		for k, v := range extra {
			w[k] = v
		}
		return w
	}
	if nontrivial && dia && imp && len(g.order) >= 3 && strings.HasPrefix(name, "dagr/") {
		var idx int
		fmt.Sscanf(name, "dagr/%d", &idx)
		samples.offer("dag", idx, func() any {
			return wit(map[string]any{"part": "dag", "case": name, "cyclic": cyc, "diamond": dia, "implied": ref.absent()})
		})
	}
	key := func(s string) string { return "dag-" + impl.name + "-" + s }

	d := impl.fn()
	var implied []string
	var initErr error
	perr := kit.Try(func() {
		switch variant {
		case "lock":
			var ns []dag.Node
			ns, initErr = d.Init(v1beta1.ToNodes(g.lockPackages()...))
			implied = idsOf(ns)
		default: // incremental construction through AddNodes / AddEdge
			var nodes []dag.Node
			for _, i := range g.order {
				nodes = append(nodes, &plainNode{id: g.ids[i]})
			}
			if initErr = d.AddNodes(nodes...); initErr != nil {
				return
			}
			type e struct{ u, v int }
			var es []e
			for _, i := range g.order {
				for _, j := range g.eorder[i] {
					es = append(es, e{i, j})
				}
			}
			r.Shuffle(len(es), func(a, b int) { es[a], es[b] = es[b], es[a] })
			known := map[string]bool{}
			for _, i := range g.order {
				known[g.ids[i]] = true
			}
			for _, x := range es {
				isImp, err := d.AddEdge(g.ids[x.u], &plainNode{id: g.ids[x.v]})
				if err != nil {
					initErr = err
					return
				}
				if isImp != !known[g.ids[x.v]] {
					violate(c, key("addedge-implied-flag-wrong"), name, fmt.Sprintf("AddEdge(%s -> %s) reported implied=%v but the target was %s", g.ids[x.u], g.ids[x.v], isImp, map[bool]string{true: "already in the graph", false: "not in the graph"}[known[g.ids[x.v]]]), wit(nil))
				}
				if isImp {
					implied = append(implied, g.ids[x.v])
				}
				known[g.ids[x.v]] = true
			}
			sort.Strings(implied)
		}
	})
	if perr != nil {
		c.Count("dag_panics", 1)
		violate(c, key("build-panics"), name, "building the graph panicked: "+firstLine(perr.Error()), wit(nil))
		return
	}
	if initErr != nil {
		violate(c, key("init-error"), name, "building a graph with unique node ids failed: "+initErr.Error(), wit(nil))
		return
	}

	// implied nodes: targets absent from the node list (upgrading DAG on lock packages: plus
	// listed targets whose version does not satisfy an incoming edge's constraint).
	wantImp := map[string]bool{}
	for _, a := range ref.absent() {
		wantImp[a] = true
	}
	if impl.name == "upgrading" && variant == "lock" {
		for _, i := range g.order {
			for _, j := range g.eorder[i] {
				if g.present[j] {
					cn := g.cons[[2]int{i, j}]
					if g.ver[j] != cn && !satisfies(g.ver[j], cn) {
						wantImp[g.ids[j]] = true
					}
				}
			}
		}
	}
	if !sameSet(implied, wantImp) {
		violate(c, key("init-implied-wrong"), name, fmt.Sprintf("implied nodes %v, reference %v", uniq(implied), sortedKeys(wantImp)), wit(nil))
	}
	if len(uniq(implied)) != len(implied) {
		c.Count("dag_implied_reported_more_than_once", 1)
	}

	// membership
	kit.Try(func() {
		for i, id := range g.ids {
			in := ref.all[id]
			if d.NodeExists(id) != in {
				violate(c, key("membership-wrong"), name, fmt.Sprintf("NodeExists(%s)=%v, reference %v", id, !in, in), wit(nil))
			}
			_, gerr := d.GetNode(id)
			if (gerr == nil) != in {
				violate(c, key("membership-wrong"), name, fmt.Sprintf("GetNode(%s) err=%v, reference member=%v", id, gerr, in), wit(nil))
			}
			nb, nerr := d.NodeNeighbors(id)
			if (nerr == nil) != in {
				violate(c, key("membership-wrong"), name, fmt.Sprintf("NodeNeighbors(%s) err=%v, reference member=%v", id, nerr, in), wit(nil))
			} else if in {
				want := map[string]bool{}
				for _, s := range ref.succ(id) {
					want[s] = true
				}
				if !sameSet(idsOf(nb), want) {
					violate(c, key("neighbors-wrong"), name, fmt.Sprintf("NodeNeighbors(%s)=%v, reference %v", id, idsOf(nb), sortedKeys(want)), wit(nil))
				}
			}
			_ = i
		}
	})

	// parent constraints accumulated on listed lock packages (upgrading DAG only): every
	// parent's constraint has to be known, or "satisfies every parent" cannot be decided.
	if impl.name == "upgrading" && variant == "lock" {
		for _, j := range g.order {
			want := map[string]bool{}
			for _, i := range g.order {
				if g.adj[i][j] {
					want[g.cons[[2]int{i, j}]] = true
				}
			}
			n, err := d.GetNode(g.ids[j])
			if err != nil {
				continue
			}
			if !sameSet(n.GetParentConstraints(), want) {
				violate(c, key("parent-constraints-wrong"), name, fmt.Sprintf("node %s parent constraints %v, reference %v", g.ids[j], n.GetParentConstraints(), sortedKeys(want)), wit(nil))
			}
		}
	}

	// Sort, several times: the implementation iterates over a Go map, so the root order varies.
	for rep := 0; rep < 3; rep++ {
		var order []string
		var serr error
		if perr := kit.Try(func() { order, serr = d.Sort() }); perr != nil {
			c.Count("dag_panics", 1)
			violate(c, key("sort-panics"), name, "Sort panicked: "+firstLine(perr.Error()), wit(nil))
			break
		}
		if cyc {
			if serr == nil {
				violate(c, key("sort-missed-cycle"), name, fmt.Sprintf("graph has a cycle but Sort returned %v without error", order), wit(nil))
				break
			}
			c.Count("dag_sort_cycle_errors", 1)
			continue
		}
		if serr != nil {
			violate(c, key("sort-false-cycle"), name, "acyclic graph but Sort failed: "+serr.Error(), wit(nil))
			break
		}
		if p := ref.orderProblem(order); p != "" {
			violate(c, key("sort-order-invalid"), name, fmt.Sprintf("Sort returned %v: %s", order, p), wit(nil))
			break
		}
		c.Count("dag_sort_orders_checked", 1)
	}

	// TraceNode for every id of the universe.
	for _, id := range g.ids {
		var tree map[string]dag.Node
		var terr error
		if perr := kit.Try(func() { tree, terr = d.TraceNode(id) }); perr != nil {
			c.Count("dag_panics", 1)
			violate(c, key("trace-panics"), name, "TraceNode panicked: "+firstLine(perr.Error()), wit(map[string]any{"trace": id}))
			continue
		}
		if !ref.all[id] {
			if terr == nil {
				violate(c, key("trace-unknown-node-no-error"), name, fmt.Sprintf("TraceNode(%s) of a node that is not in the graph returned %d nodes and no error", id, len(tree)), wit(nil))
			}
			continue
		}
		if terr != nil {
			violate(c, key("trace-error"), name, fmt.Sprintf("TraceNode(%s) failed: %v", id, terr), wit(nil))
			continue
		}
		got := make([]string, 0, len(tree))
		for k, n := range tree {
			got = append(got, k)
			if n == nil || n.Identifier() != k {
				violate(c, key("trace-key-mismatch"), name, fmt.Sprintf("TraceNode(%s): key %q maps to a different node", id, k), wit(nil))
			}
		}
		sort.Strings(got)
		want := ref.reach(id)
		if !sameSet(got, want) {
			violate(c, key("trace-closure-wrong"), name, fmt.Sprintf("TraceNode(%s)=%v, reference transitive closure %v", id, got, sortedKeys(want)), wit(map[string]any{"trace": id}))
		}
		c.Count("dag_traces_checked", 1)
	}
}

func uniq(s []string) []string {
	m := map[string]bool{}
	for _, x := range s {
		m[x] = true
	}
	return sortedKeys(m)
}

func firstLine(s string) string {
	if i := strings.IndexByte(s, '\n'); i >= 0 {
		return s[:i]
	}
	return s
}

// dagExhaustive enumerates every digraph on a universe of k ids: every subset of listed
// nodes, every edge set leaving listed nodes (self-loops and edges to unlisted ids included).
func dagExhaustive(c *kit.Ctx, maxK int) int {
	total := 0
	// A mutation of the recursive DAG walks can overflow the stack on a cyclic graph, which is a
	// Go fatal error that no recover() catches: keep the running case on disk (one pwrite per
	// case into a fixed-width JSON file) so that ./check can report it as the witness.
	debug.SetMaxStack(64 << 20)
	pendPath := filepath.Join(kit.Root(), "replays", "pending-"+c.ID+".json")
	_ = os.MkdirAll(filepath.Dir(pendPath), 0o755)
	pend, _ := os.OpenFile(pendPath, os.O_CREATE|os.O_RDWR|os.O_TRUNC, 0o644)
	defer func() {
		if pend != nil {
			pend.Close()
			os.Remove(pendPath)
		}
	}()
	mark := func(name string) {
		if pend == nil {
			return
		}
		b := []byte(kit.JSON(map[string]any{
			"property": c.ID, "tier": c.Tier, "seed": c.Seed, "case": name, "key": "dag-fatal-error",
			"what": "the process died with a Go fatal error (e.g. stack overflow from unbounded recursion) while the DAG methods ran on this graph",
		}))
		for len(b) < 512 {
			b = append(b, ' ')
		}
		_, _ = pend.WriteAt(b, 0)
	}
	for k := 0; k <= maxK; k++ {
		for mask := 0; mask < 1<<k; mask++ {
			var rows []int
			for i := 0; i < k; i++ {
				if mask&(1<<i) != 0 {
					rows = append(rows, i)
				}
			}
			nbits := len(rows) * k
			for bits := 0; bits < 1<<nbits; bits++ {
				name := fmt.Sprintf("dagx/%d/%d/%d", k, mask, bits)
				total++
				if !c.Want(name) {
					continue
				}
				mark(name)
				r := c.Rng(fmt.Sprintf("dagx-%d-%d", k, mask), bits)
				g := &gspec{ids: make([]string, k), present: make([]bool, k), adj: make([][]bool, k)}
				for i := 0; i < k; i++ {
					g.ids[i] = nodeID(i)
					g.present[i] = mask&(1<<i) != 0
					g.adj[i] = make([]bool, k)
				}
				for ri, i := range rows {
					for j := 0; j < k; j++ {
						if bits&(1<<(ri*k+j)) != 0 {
							g.adj[i][j] = true
						}
					}
				}
				g.finish(r, false)
				runDagCase(c, name, g, dagImpls[0], "lock", r)
				g.finish(r, true)
				runDagCase(c, name, g, dagImpls[1], "lock", r)
				g.finish(r, false)
				runDagCase(c, name, g, dagImpls[r.IntN(2)], "plain", r)
			}
		}
	}
	return total
}

// dagRandom generates larger graphs: half of them acyclic by construction plus a few back
// edges, the rest with uniform random edges.
func dagRandomCase(c *kit.Ctx, i int) {
	name := fmt.Sprintf("dagr/%d", i)
	if !c.Want(name) {
		return
	}
	r := c.Rng("dagr", i)
	k := 5 + r.IntN(8)
	g := &gspec{ids: make([]string, k), present: make([]bool, k), adj: make([][]bool, k)}
	perm := r.Perm(k)
	for a := 0; a < k; a++ {
		g.ids[a] = nodeID(a)
		g.present[a] = r.IntN(100) < 80
		g.adj[a] = make([]bool, k)
	}
	dens := 5 + r.IntN(35)
	layered := r.IntN(2) == 0
	for a := 0; a < k; a++ {
		if !g.present[a] {
			continue
		}
		for b := 0; b < k; b++ {
			if r.IntN(100) >= dens {
				continue
			}
			if layered && perm[a] >= perm[b] {
				continue
			}
			g.adj[a][b] = true
		}
	}
	if layered {
		for n := r.IntN(3); n > 0; n-- { // 0-2 back edges (may or may not close a cycle)
			a, b := r.IntN(k), r.IntN(k)
			if g.present[a] {
				g.adj[a][b] = true
			}
		}
	}
	switch r.IntN(3) {
	case 0:
		g.finish(r, false)
		runDagCase(c, name, g, dagImpls[0], "lock", r)
	case 1:
		g.finish(r, true)
		runDagCase(c, name, g, dagImpls[1], "lock", r)
	default:
		g.finish(r, false)
		runDagCase(c, name, g, dagImpls[r.IntN(2)], "plain", r)
	}
}
