//go:build verif

package main

import (
	"context"
	"fmt"
	"math/rand/v2"

	"github.com/Masterminds/semver"
	metav1 "k8s.io/apimachinery/pkg/apis/meta/v1"
	"k8s.io/apimachinery/pkg/types"
	"k8s.io/utils/ptr"

	pkgmetav1 "github.com/crossplane/crossplane/apis/pkg/meta/v1"
	v1 "github.com/crossplane/crossplane/apis/pkg/v1"
	"github.com/crossplane/crossplane/apis/pkg/v1beta1"
	"github.com/crossplane/crossplane/internal/controller/pkg/revision"
	"github.com/crossplane/crossplane/internal/dag"
	"github.com/crossplane/crossplane/verifh/kit"
	"github.com/crossplane/crossplane/verifh/sim"
)

// pcase: lock contents plus one active revision and the dependencies its package declares.
type pcase struct {
	lock       []v1beta1.LockPackage
	selfSrc    string
	selfVer    string
	selfName   string
	selfInLock bool
	deps       []pkgmetav1.Dependency // declared by the revision's package
	depSrc     []string
}

func metaDep(r *rand.Rand, src, cons string) pkgmetav1.Dependency {
	d := pkgmetav1.Dependency{Version: cons}
	if r.IntN(2) == 0 {
		d.APIVersion = ptr.To(pkgGroup + "/v1")
		d.Kind = ptr.To(string(typeOf(src)))
		d.Package = ptr.To(src)
		return d
	}
	switch typeOf(src) {
	case v1beta1.ConfigurationPackageType:
		d.Configuration = ptr.To(src)
	case v1beta1.FunctionPackageType:
		d.Function = ptr.To(src)
	default:
		d.Provider = ptr.To(src)
	}
	return d
}

func genResolveCase(r *rand.Rand) *pcase {
	pc := &pcase{}
	pool := append([]string(nil), srcPool...)
	r.Shuffle(len(pool), func(i, j int) { pool[i], pool[j] = pool[j], pool[i] })
	pc.selfSrc = pool[0]
	pc.selfVer = plainVersion(r)
	pc.selfName = objName(pc.selfSrc) + "-rev1"
	others := pool[1:]
	nl := r.IntN(len(others) + 1)
	inLock := others[:nl]
	// mostly healthy locks, with a tunable amount of trouble
	troubleMissing := r.IntN(100) < 35
	troubleVersion := r.IntN(100) < 40
	dens := 15 + r.IntN(35)

	ver := map[string]string{}
	for _, s := range inLock {
		ver[s] = plainVersion(r)
		if r.IntN(100) < 10 {
			ver[s] = genDigest(r)
		}
		if r.IntN(100) < 4 {
			ver[s] = "latest"
		}
	}
	consFor := func(target string) string {
		v, ok := ver[target]
		if !ok {
			c, _ := genConstraint(r, nil)
			return c
		}
		if troubleVersion && r.IntN(100) < 35 {
			switch r.IntN(4) {
			case 0:
				return genDigest(r)
			case 1:
				return invalidConstraints[r.IntN(len(invalidConstraints))]
			default:
				c, _ := genConstraint(r, []string{v})
				return c
			}
		}
		if isDigest(v) {
			return v
		}
		return []string{">=0.0.0", "*", v, ">=" + v, "<=" + v, "^" + v}[r.IntN(6)]
	}
	targets := func(from string) []string {
		var ts []string
		for _, t := range pool {
			present := t == pc.selfSrc
			for _, s := range inLock {
				if s == t {
					present = true
				}
			}
			if !present && !troubleMissing {
				continue
			}
			if t == from && r.IntN(100) >= 10 { // self-loops are rare
				continue
			}
			if r.IntN(100) < dens {
				ts = append(ts, t)
			}
		}
		return ts
	}
	for _, s := range inLock {
		lp := v1beta1.LockPackage{Name: objName(s) + "-rev1", Source: s, Version: ver[s]}
		if r.IntN(2) == 0 {
			lp.Type = ptr.To(typeOf(s))
		} else {
			lp.APIVersion = ptr.To(pkgGroup + "/v1")
			lp.Kind = ptr.To(string(typeOf(s)))
		}
		for _, t := range targets(s) {
			c := ">=0.0.0"
			if t != pc.selfSrc {
				c = consFor(t)
			}
			lp.Dependencies = append(lp.Dependencies, mkDep(r, t, c))
		}
		pc.lock = append(pc.lock, lp)
	}
	for _, t := range targets(pc.selfSrc) {
		c := consFor(t)
		if t == pc.selfSrc {
			c = ">=0.0.0"
		}
		pc.deps = append(pc.deps, metaDep(r, t, c))
		pc.depSrc = append(pc.depSrc, t)
	}
	// the package metadata may list the same package more than once, with different constraints
	// (every entry counts)
	if len(pc.deps) > 0 && r.IntN(100) < 20 {
		k := r.IntN(len(pc.deps))
		t := pc.depSrc[k]
		cons := consFor(t)
		if v, ok := ver[t]; ok && validTag(v) && r.IntN(2) == 0 {
			cons = []string{"<" + v, ">" + v, "!=" + v}[r.IntN(3)] // not satisfied by what is installed
		}
		at := r.IntN(len(pc.deps) + 1)
		d := metaDep(r, t, cons)
		pc.deps = append(pc.deps[:at:at], append([]pkgmetav1.Dependency{d}, pc.deps[at:]...)...)
		pc.depSrc = append(pc.depSrc[:at:at], append([]string{t}, pc.depSrc[at:]...)...)
	}
	pc.selfInLock = r.IntN(100) < 45
	if pc.selfInLock { // the entry the revision wrote on an earlier reconcile: same source, same dependencies
		lp := v1beta1.LockPackage{
			Name: pc.selfName, Source: pc.selfSrc, Version: pc.selfVer,
			APIVersion: ptr.To(pkgGroup + "/v1"), Kind: ptr.To(string(typeOf(pc.selfSrc))),
		}
		for i, t := range pc.depSrc {
			d := v1beta1.Dependency{Package: t, Constraints: pc.deps[i].Version}
			if pc.deps[i].Package != nil {
				d.APIVersion, d.Kind = pc.deps[i].APIVersion, pc.deps[i].Kind
			} else {
				d.Type = ptr.To(typeOf(t))
			}
			lp.Dependencies = append(lp.Dependencies, d)
		}
		pc.lock = append(pc.lock, lp)
	}
	r.Shuffle(len(pc.lock), func(i, j int) { pc.lock[i], pc.lock[j] = pc.lock[j], pc.lock[i] })
	return pc
}

func (pc *pcase) describe() map[string]any {
	var lp []any
	for _, p := range pc.lock {
		var ds []string
		for _, d := range p.Dependencies {
			ds = append(ds, d.Package+" ("+d.Constraints+")")
		}
		lp = append(lp, map[string]any{"name": p.Name, "source": p.Source, "version": p.Version, "dependsOn": ds})
	}
	var ds []string
	for i, t := range pc.depSrc {
		ds = append(ds, t+" ("+pc.deps[i].Version+")")
	}
	return map[string]any{"part": "resolve", "lock": lp, "revision": pc.selfName, "revisionPackage": joinPackage(pc.selfSrc, pc.selfVer), "revisionInLock": pc.selfInLock, "declaredDependencies": ds}
}

func runResolveCase(c *kit.Ctx, i int) {
	cname := fmt.Sprintf("dep/%d", i)
	if !c.Want(cname) {
		return
	}
	r := c.Rng("dep", i)
	pc := genResolveCase(r)

	// reference: the lock as a graph, the revision's own (declared) edges, the closure
	g := newRef()
	lockVer := map[string]string{}
	for _, p := range pc.lock {
		g.addNode(p.Source)
		lockVer[p.Source] = p.Version
	}
	g.addNode(pc.selfSrc) // the revision is (or becomes) part of the lock
	for _, p := range pc.lock {
		if p.Source == pc.selfSrc {
			continue
		}
		for _, d := range p.Dependencies {
			g.addEdge(p.Source, d.Package)
		}
	}
	for _, t := range pc.depSrc {
		g.addEdge(pc.selfSrc, t)
	}
	closure := g.reach(pc.selfSrc)
	var missing []string
	for _, n := range sortedKeys(closure) {
		if !g.present[n] {
			missing = append(missing, n)
		}
	}
	directMissing, directMentioned := 0, 0
	mentioned := map[string]bool{} // referenced by some lock entry other than the revision itself
	for _, p := range pc.lock {
		if p.Source == pc.selfSrc {
			continue
		}
		for _, d := range p.Dependencies {
			mentioned[d.Package] = true
		}
	}
	type bad struct{ dep, version, constraint, why string }
	var bads []bad
	cleanCount := true // the "invalid" count is only defined when every check could be carried out
	for k, t := range pc.depSrc {
		if !g.present[t] {
			directMissing++
			if mentioned[t] {
				directMentioned++
			}
			continue
		}
		cn := pc.deps[k].Version
		v := lockVer[t]
		if t == pc.selfSrc {
			v = pc.selfVer
		}
		if satisfies(v, cn) {
			continue
		}
		why := "incompatible-version"
		switch {
		case isDigest(cn):
			why = "digest-mismatch"
			cleanCount = false
		case !validConstraint(cn):
			why = "invalid-constraint"
			cleanCount = false
		case !validTag(v):
			why = "installed-version-not-semver"
			cleanCount = false
		}
		bads = append(bads, bad{t, v, cn, why})
	}
	cyc, dia, imp, _ := g.classes()
	nontrivial := cyc || dia || imp

	c.Eval("dep|"+kit.JSON(pc.describe()), nontrivial)
	c.Count("dep_cases", 1)
	if cyc {
		c.Count("dep_graphs_cyclic", 1)
	}
	if dia {
		c.Count("dep_graphs_diamond", 1)
	}
	if imp {
		c.Count("dep_graphs_implied", 1)
	}
	wit := func(extra map[string]any) map[string]any {
		w := pc.describe()
		w["referenceClosure"] = sortedKeys(closure)
		w["referenceMissing"] = missing
		for k, v := range extra {
			w[k] = v
		}
		return w
	}
	if nontrivial && len(closure) >= 3 {
		samples.offer("dep", i, func() any { w := wit(nil); w["case"] = cname; return w })
	}

	w := sim.NewWorld(pkgScheme, uint64(i)+1)
	w.KeepBodies = false
	ctx := context.Background()
	if len(pc.lock) > 0 || r.IntN(2) == 0 {
		lk := &v1beta1.Lock{ObjectMeta: metav1.ObjectMeta{Name: "lock"}, Packages: pc.lock}
		if err := w.Client("user").Create(ctx, lk); err != nil {
			c.Inconclusive("cannot seed lock: " + err.Error())
			return
		}
	}
	var meta pkgmetav1.Pkg
	var pr v1.PackageRevision
	gvk := v1.ProviderGroupVersionKind
	spec := v1.PackageRevisionSpec{Package: joinPackage(pc.selfSrc, pc.selfVer), DesiredState: v1.PackageRevisionActive}
	om := metav1.ObjectMeta{Name: pc.selfName}
	switch typeOf(pc.selfSrc) {
	case v1beta1.ConfigurationPackageType:
		gvk = v1.ConfigurationGroupVersionKind
		meta = &pkgmetav1.Configuration{Spec: pkgmetav1.ConfigurationSpec{MetaSpec: pkgmetav1.MetaSpec{DependsOn: pc.deps}}}
		pr = &v1.ConfigurationRevision{ObjectMeta: om, Spec: spec}
	case v1beta1.FunctionPackageType:
		gvk = v1.FunctionGroupVersionKind
		meta = &pkgmetav1.Function{Spec: pkgmetav1.FunctionSpec{MetaSpec: pkgmetav1.MetaSpec{DependsOn: pc.deps}}}
		pr = &v1.FunctionRevision{ObjectMeta: om, Spec: v1.FunctionRevisionSpec{PackageRevisionSpec: spec}}
	default:
		meta = &pkgmetav1.Provider{Spec: pkgmetav1.ProviderSpec{MetaSpec: pkgmetav1.MetaSpec{DependsOn: pc.deps}}}
		pr = &v1.ProviderRevision{ObjectMeta: om, Spec: v1.ProviderRevisionSpec{PackageRevisionSpec: spec}}
	}
	m := revision.NewPackageDependencyManager(w.Client("revision"), dag.NewMapDag, gvk)

	var found, installed, invalid int
	var rerr error
	perr := kit.Try(func() { found, installed, invalid, rerr = m.Resolve(ctx, meta, pr) })
	got := map[string]any{"found": found, "installed": installed, "invalid": invalid, "err": fmt.Sprint(rerr)}
	if perr != nil {
		c.Count("dep_resolve_panics", 1)
		got["panic"] = firstLine(perr.Error())
		rerr = perr
	}
	nC, nM := len(closure), len(missing)

	switch {
	case rerr == nil:
		c.Count("dep_decisions_satisfied", 1)
		switch {
		case nM > 0:
			violate(c, "resolve-satisfied-despite-missing-dependency", cname, fmt.Sprintf("Resolve returned nil although %v (direct or transitive) are not in the lock", missing), wit(got))
		case len(bads) > 0:
			violate(c, "resolve-satisfied-despite-"+bads[0].why, cname, fmt.Sprintf("Resolve returned nil although direct dependency %s is installed at %q which does not satisfy %q", bads[0].dep, bads[0].version, bads[0].constraint), wit(got))
		case found != nC || installed != nC || invalid != 0:
			violate(c, "resolve-counts-wrong-on-success", cname, fmt.Sprintf("Resolve returned nil with found=%d installed=%d invalid=%d, reference closure has %d packages, all present and valid", found, installed, invalid, nC), wit(got))
		}
	case nM > 0:
		c.Count("dep_decisions_missing", 1)
		switch {
		case perr != nil || closure[pc.selfSrc]:
			// counts after a panic are meaningless; with the revision on a cycle through itself the
			// implementation also lists the revision as missing (an error either way): not judged
		case installed >= found:
			violate(c, "resolve-missing-counted-as-installed", cname, fmt.Sprintf("%v are not in the lock but Resolve reported found=%d installed=%d", missing, found, installed), wit(got))
		case found == nC && installed == nC-nM:
			c.Count("dep_counts_closure_form", 1)
		case !pc.selfInLock && directMissing > 0 && found == len(pc.depSrc) &&
			installed >= len(pc.depSrc)-directMissing && installed <= len(pc.depSrc)-directMissing+directMentioned:
			c.Count("dep_counts_direct_only_form", 1) // documented shortcut: direct dependencies missing, transitive ones not examined
		default:
			violate(c, "resolve-counts-wrong-on-missing", cname, fmt.Sprintf("found=%d installed=%d; reference: closure %d with %d missing (or direct-only %d with %d missing)", found, installed, nC, nM, len(pc.depSrc), directMissing), wit(got))
		}
	case len(bads) > 0:
		c.Count("dep_decisions_invalid_"+bads[0].why, 1)
		if perr == nil && cleanCount && !closure[pc.selfSrc] && (invalid != len(bads) || found != nC || installed != nC) {
			violate(c, "resolve-counts-wrong-on-incompatible", cname, fmt.Sprintf("found=%d installed=%d invalid=%d; reference: closure %d all present, %d direct dependencies with an incompatible version", found, installed, invalid, nC, len(bads)), wit(got))
		}
	default:
		// everything is present and valid, yet an error: not forbidden by the property (it is
		// about what may be reported satisfied), so it is counted, not flagged.
		c.Count("dep_unexpected_errors_on_satisfied_input", 1)
		if closure[pc.selfSrc] && !pc.selfInLock {
			// observed: a revision that is not yet in the lock but lies on a dependency cycle is
			// reported as its own missing dependency. An error on a cyclic graph: not forbidden.
			c.Count("dep_unexpected_errors_revision_on_cycle_reported_missing", 1)
		} else {
			c.Count("dep_unexpected_errors_other", 1)
			c.Extra("dep_unexpected_error_example", wit(got))
		}
	}
	if nM == 0 && len(bads) == 0 {
		c.Count("dep_reference_satisfied", 1)
	}

	// The lock changes under the revision's feet: right before its first write (adding itself to
	// the lock) another revision leaves the lock - one this revision depends on. Whatever Resolve
	// answers, "satisfied" must be true of the lock as it is afterwards.
	if len(pc.lock) > 0 && len(pc.depSrc) > 0 && i%3 == 0 {
		victim := ""
		for _, t := range pc.depSrc {
			if g.present[t] && t != pc.selfSrc {
				victim = t
				break
			}
		}
		if victim == "" {
			return
		}
		w2 := sim.NewWorld(pkgScheme, uint64(i)+7)
		w2.KeepBodies = false
		lk := &v1beta1.Lock{ObjectMeta: metav1.ObjectMeta{Name: "lock"}, Packages: pc.lock}
		if err := w2.Client("user").Create(ctx, lk); err != nil {
			return
		}
		rc := w2.Client("revision")
		done := false
		rc.OnCall = func(_ int, verb string) {
			if done || (verb != "update" && verb != "patch" && verb != "create") {
				return
			}
			done = true
			cur := &v1beta1.Lock{}
			u := w2.Client("other-revision")
			if err := u.Get(ctx, types.NamespacedName{Name: "lock"}, cur); err != nil {
				return
			}
			var keep []v1beta1.LockPackage
			for _, p := range cur.Packages {
				if p.Source != victim {
					keep = append(keep, p)
				}
			}
			cur.Packages = keep
			_ = u.Update(ctx, cur)
		}
		m2 := revision.NewPackageDependencyManager(rc, dag.NewMapDag, gvk)
		var err2 error
		perr2 := kit.Try(func() { _, _, _, err2 = m2.Resolve(ctx, meta, pr) })
		rc.OnCall = nil
		c.Count("dep_concurrent_lock_edit_cases", 1)
		if done && perr2 == nil && err2 == nil {
			final := &v1beta1.Lock{}
			_ = w2.Client("user").Get(ctx, types.NamespacedName{Name: "lock"}, final)
			inLock := map[string]bool{}
			for _, p := range final.Packages {
				inLock[p.Source] = true
			}
			if !inLock[victim] {
				violate(c, "resolve-satisfied-although-dependency-left-the-lock-meanwhile", cname, fmt.Sprintf("Resolve returned nil, but %s - a direct dependency - left the lock right before the revision's own write and is not in the lock now", victim), wit(map[string]any{"victim": victim}))
			}
		}
	}
}

func validConstraint(s string) bool {
	_, err := semver.NewConstraint(s)
	return err == nil
}
